//! inject: src/debugger/variable/value/mod.rs
//
// C07 / C08 — operator application on values: index, slice, literal matching.
// The user-controlled operands (slice bounds, index, literal) are symbolic; array contents are concrete
// and identify themselves through their `index` field (the operators never look at the payload).
use super::*;

macro_rules! bsv {
    ($c:expr, $m:literal) => {
        assert!($c, concat!("BSV: ", $m))
    };
}

// NOTE: ArrayValue::slice and the array arm of Value::index are not decided here: every path through them drops
// `Value`s through a pointer (Vec::drain / swap_remove), and CBMC then expands the drop glue of the recursive `Value`
// enum for every variant - out of memory at 12 GB even for an empty array (DESIGN 11.2 lists the five attempts).

use crate::debugger::debugee::dwarf::eval::EvaluationContext;
use crate::debugger::debugee::dwarf::r#type::ComplexType;
use crate::debugger::debugee::dwarf::unit::DieAddr;
use crate::debugger::ExplorationContext;
use nix::unistd::Pid;
use std::mem::MaybeUninit;

static mut ELEM_SIZE: u64 = 0;
static mut READ_ADDR: usize = 0;
static mut READ_LEN: usize = 0;
static mut READS: usize = 0;
fn stub_type_size(_this: &ComplexType, _evcx: &EvaluationContext, _typ: TypeId) -> Option<u64> {
    Some(unsafe { ELEM_SIZE })
}
/// the debuggee has nothing mapped there: the read fails, which ends PointerValue::slice right after its arithmetic
fn stub_read(_pid: Pid, addr: usize, n: usize) -> Result<Vec<u8>, nix::Error> {
    unsafe {
        READ_ADDR = addr;
        READ_LEN = n;
        READS += 1;
    }
    Err(nix::errno::Errno::EIO)
}
/// cut: building element values (never reached: the read fails first); left reachable, the DWARF expression
/// evaluator behind it trips an internal error of the Kani compiler
fn stub_parse_inner(_this: &ValueParser, _pcx: &ParseContext, _data: Option<ObjectBinaryRepr>, _type_id: TypeId) -> Option<Value> {
    None
}
fn no_backtrace() -> std::backtrace::Backtrace {
    std::backtrace::Backtrace::disabled()
}

//@ harness: c08_pointer_slice_arith
//@ property: C08
//@ obligation: C08 slice arithmetic
//@ tier: quick
//@ encodes: PointerValue::slice (address and size arithmetic on user-typed bounds: `(*ptr)[l..r]`)
//@ symbolic: the pointer value (any address), the pointee size (1..4096), the left bound (absent or any usize), the right bound (any usize)
//@ bounds: loop-free up to the read; the read is answered with EIO, which ends the function right after the arithmetic under test
//@ oracle: no input can crash the debugger: no arithmetic overflow or underflow is reachable for any bounds the user types (an inverted range, or bounds whose byte offset exceeds the address space, must give no result); for sane inputs the read requested is [ptr + size*l, + size*(r-l))
//@ stubs: ComplexType::type_size_in_bytes -> symbolic element size; debugger::read_memory_by_pid -> records the request, EIO; Backtrace::capture
//@ outside: building the element values from the bytes read (drops Values)
//@ timeout: 900
#[kani::proof]
#[kani::stub(ComplexType::type_size_in_bytes, stub_type_size)]
#[kani::stub(crate::debugger::read_memory_by_pid, stub_read)]
#[kani::stub(ValueParser::parse_inner, stub_parse_inner)]
#[kani::stub(std::backtrace::Backtrace::capture, no_backtrace)]
#[kani::unwind(3)]
fn c08_pointer_slice_arith() {
    let ptr: usize = kani::any();
    let size: u64 = kani::any();
    kani::assume(size >= 1 && size <= 4096);
    unsafe {
        ELEM_SIZE = size;
        READS = 0;
    }
    let left: Option<usize> = if kani::any() { Some(kani::any()) } else { None };
    let right: usize = kani::any();
    let ecx = ExplorationContext::new_non_running(Pid::from_raw(7));
    let ev = MaybeUninit::<crate::debugger::debugee::dwarf::eval::ExpressionEvaluator>::uninit();
    let evcx = EvaluationContext { evaluator: unsafe { &*ev.as_ptr() }, ecx: &ecx };
    let tg = MaybeUninit::<ComplexType>::uninit();
    let pcx = ParseContext { evcx: &evcx, type_graph: unsafe { &*tg.as_ptr() } };
    let p = PointerValue {
        type_ident: TypeIdentity::unknown(),
        type_id: None,
        value: Some(ptr as *const ()),
        target_type: Some(DieAddr::Unit(gimli::UnitOffset(3))),
        target_type_size: None,
        raw_address: None,
    };
    let r = p.slice(&pcx, left, right);
    bsv!(r.is_none(), "nothing is mapped there: no result");
    let l = left.unwrap_or(0);
    if l <= right && right <= 1 << 20 && ptr <= usize::MAX / 2 {
        bsv!(unsafe { READS } == 1, "one read for a sane request");
        bsv!(unsafe { READ_ADDR } == ptr + size as usize * l, "the read starts at element l");
        bsv!(unsafe { READ_LEN } == size as usize * (right - l), "and covers elements l..r-1");
    }
    kani::cover!(matches!(left, Some(l) if l > right), "inverted range");
    kani::cover!(right == usize::MAX, "huge right bound");
    kani::cover!(true, "BSV-END");
    std::mem::forget(r);
    std::mem::forget(p);
}

/// (scalar, the one Int literal that denotes this key, if any).
/// The literal parser reads decimal text as u64 and stores its bit pattern in an i64 (expression.rs: `val as i64`),
/// so a u64 / usize key is denoted by the i64 with the same 64-bit pattern; a 128-bit key outside the 64-bit range
/// has no literal at all.
fn any_int_scalar() -> (SupportedScalar, Option<i64>) {
    let k: u8 = kani::any();
    kani::assume(k < 12);
    match k {
        0 => { let v: i8 = kani::any(); (SupportedScalar::I8(v), Some(v as i64)) }
        1 => { let v: i16 = kani::any(); (SupportedScalar::I16(v), Some(v as i64)) }
        2 => { let v: i32 = kani::any(); (SupportedScalar::I32(v), Some(v as i64)) }
        3 => { let v: i64 = kani::any(); (SupportedScalar::I64(v), Some(v)) }
        4 => { let v: isize = kani::any(); (SupportedScalar::Isize(v), Some(v as i64)) }
        5 => { let v: u8 = kani::any(); (SupportedScalar::U8(v), Some(v as i64)) }
        6 => { let v: u16 = kani::any(); (SupportedScalar::U16(v), Some(v as i64)) }
        7 => { let v: u32 = kani::any(); (SupportedScalar::U32(v), Some(v as i64)) }
        8 => { let v: u64 = kani::any(); (SupportedScalar::U64(v), Some(v as i64)) }
        9 => { let v: usize = kani::any(); (SupportedScalar::Usize(v), Some(v as i64)) }
        10 => {
            let v: i128 = kani::any();
            let lit = if v >= i64::MIN as i128 && v <= i64::MAX as i128 { Some(v as i64) } else { None };
            (SupportedScalar::I128(v), lit)
        }
        _ => {
            let v: u128 = kani::any();
            let lit = if v <= u64::MAX as u128 { Some(v as u64 as i64) } else { None };
            (SupportedScalar::U128(v), lit)
        }
    }
}

//@ harness: c07_scalar_literal_match
//@ property: C07
//@ obligation: H-C07-b
//@ tier: quick
//@ encodes: SupportedScalar::equal_with_literal, Literal::{equal_with_int, equal_with_bool, equal_with_address}
//@ symbolic: scalar kind (all 12 integer kinds, bool) and value (full width), literal kind (Int, Bool, Address) and value
//@ bounds: loop-free
//@ oracle: a[i] is the value stored under key i: an integer key matches exactly the one Int literal that denotes it (signed kinds: the value; u64/usize: the i64 with the same bit pattern, which is how the literal parser stores decimal text; 128-bit keys outside the 64-bit range: none), so distinct keys of one map never match the same literal; bool matches only an equal Bool literal; no integer matches a Bool or Address literal
//@ outside: floats (EPS comparison), chars and strings (formatting), composite literals (see c07_array_literal_match)
//@ timeout: 900
#[kani::proof]
#[kani::unwind(3)]
fn c07_scalar_literal_match() {
    let li: i64 = kani::any();
    let lb: bool = kani::any();
    let la: usize = kani::any();
    let lk: u8 = kani::any();
    kani::assume(lk < 3);
    let lit = match lk {
        0 => Literal::Int(li),
        1 => Literal::Bool(lb),
        _ => Literal::Address(la),
    };
    if kani::any() {
        let (s, denoted_by) = any_int_scalar();
        let got = s.equal_with_literal(&lit);
        let want = lk == 0 && denoted_by == Some(li);
        bsv!(got == want, "an integer key matches exactly the Int literal that denotes it (distinct keys never match the same literal)");
        kani::cover!(got && li < 0, "negative literal matched");
        kani::cover!(!got && lk == 0 && denoted_by.is_none(), "a 128-bit key outside the 64-bit range matches no literal");
    } else {
        let b: bool = kani::any();
        let got = SupportedScalar::Bool(b).equal_with_literal(&lit);
        bsv!(got == (lk == 1 && b == lb), "a bool matches only an equal Bool literal");
    }
    kani::cover!(true, "BSV-END");
    std::mem::forget(lit);
}

//@ harness: c07_float_literal_match
//@ property: C07
//@ obligation: H-C07-b
//@ tier: quick
//@ encodes: SupportedScalar::equal_with_literal (F32 / F64 arms), Literal::equal_with_float
//@ symbolic: the float key (any finite f64, or an f32 widened), the float literal (any finite f64)
//@ bounds: loop-free; floating point decided bit-precisely by CBMC's float encoding
//@ oracle: a[i] is the value stored under key i: a key equal to the literal matches (0.0 and -0.0 included), a key that differs from the literal by more than 1e-6 does not; an integer or bool literal never matches a float key
//@ outside: the exact tolerance between 0 and 1e-6 (the code uses an absolute 1e-7); NaN keys
//@ timeout: 900
#[kani::proof]
#[kani::unwind(3)]
fn c07_float_literal_match() {
    let key: f64 = kani::any();
    let lit: f64 = kani::any();
    kani::assume(key.is_finite() && lit.is_finite());
    let l = Literal::Float(lit);
    let got = SupportedScalar::F64(key).equal_with_literal(&l);
    if key == lit {
        bsv!(got, "a float key equal to the literal matches (zero included)");
    }
    let d = key - lit;
    if d > 1e-6 || d < -1e-6 {
        bsv!(!got, "a float key that differs from the literal by more than 1e-6 does not match");
    }
    let k32: f32 = kani::any();
    kani::assume(k32.is_finite());
    let l32 = Literal::Float(k32 as f64);
    bsv!(SupportedScalar::F32(k32).equal_with_literal(&l32), "an f32 key matches the literal that denotes it");
    let li = Literal::Int(kani::any());
    bsv!(!SupportedScalar::F64(key).equal_with_literal(&li), "an integer literal never matches a float key");
    kani::cover!(key == 0.0 && lit == 0.0 && lit.is_sign_negative(), "key 0.0, literal -0.0");
    kani::cover!(key > 1e300, "very large key");
    kani::cover!(got && key != lit, "match within the tolerance");
    kani::cover!(true, "BSV-END");
    std::mem::forget((l, l32, li));
}

