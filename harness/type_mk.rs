//! inject: src/debugger/debugee/dwarf/type.rs
//! t7: src/debugger/debugee/dwarf/type.rs, src/debugger/variable/value/parser.rs
//! t7-path: src/debugger/variable/value/serialize.rs
//! t7-keep-std: src/debugger/debugee/dwarf/type.rs: ^pub type TypeCache
//
// Helper (no harness of its own): builds a one-type ComplexType for harnesses in other modules
// (ComplexType::root is a private field).
use super::*;

/// a type graph whose root (and only) type is `decl`
pub(crate) fn single_type(id: TypeId, decl: TypeDeclaration) -> ComplexType {
    ComplexType { types: HashMap::from([(id, decl)]), root: id }
}
