//! inject: src/dap/yadap/session/data.rs
//
// C15 — DAP writeMemory / setVariable byte writer (word-granular read-modify-write).
// `&Debugger` is a never-initialised partial object (T2); Debugger::{read_memory, write_memory}
// (one-line wrappers of ptrace peek/poke) are stubbed onto a 32-byte model at a word-aligned base.
use super::*;
use std::mem::MaybeUninit;

macro_rules! bsv {
    ($c:expr, $m:literal) => {
        assert!($c, concat!("BSV: ", $m))
    };
}

const BASE: usize = 0x7f00_0000_1000;
const MEM_LEN: usize = 32;
static mut MEM: [u8; MEM_LEN] = [0; MEM_LEN];
static mut WRITE_FAIL_AT: usize = 0;
static mut WRITES: usize = 0;

fn stub_read_memory(_this: &debugger::Debugger, addr: usize, n: usize) -> Result<Vec<u8>, debugger::Error> {
    if addr < BASE || addr + n > BASE + MEM_LEN || n > 8 {
        return Err(debugger::Error::ProcessNotStarted);
    }
    let mut v = Vec::with_capacity(8);
    let mut i = 0;
    while i < n {
        v.push(unsafe { MEM[addr - BASE + i] });
        i += 1;
    }
    Ok(v)
}
fn stub_write_memory(_this: &debugger::Debugger, addr: usize, value: usize) -> Result<(), debugger::Error> {
    unsafe {
        WRITES += 1;
        if WRITE_FAIL_AT != 0 && WRITES == WRITE_FAIL_AT {
            return Err(debugger::Error::ProcessNotStarted);
        }
    }
    if addr < BASE || addr + 8 > BASE + MEM_LEN {
        return Err(debugger::Error::ProcessNotStarted);
    }
    let w = value.to_le_bytes();
    let mut i = 0;
    while i < 8 {
        unsafe { MEM[addr - BASE + i] = w[i] };
        i += 1;
    }
    Ok(())
}
fn no_backtrace() -> std::backtrace::Backtrace {
    std::backtrace::Backtrace::disabled()
}

fn write_exact<const LEN: usize>() {
    let init: [u8; MEM_LEN] = kani::any();
    unsafe {
        MEM = init;
        WRITES = 0;
        WRITE_FAIL_AT = 0;
    }
    let off: usize = kani::any();
    kani::assume(off <= 8);
    let data: [u8; LEN] = kani::any();
    let fake = MaybeUninit::<debugger::Debugger>::uninit();
    let dbg: &debugger::Debugger = unsafe { &*fake.as_ptr() };
    let r = write_bytes(dbg, BASE + off, &data);
    bsv!(r.is_ok(), "write inside mapped memory succeeds");
    std::mem::forget(r);
    let m = unsafe { MEM };
    let mut i = 0;
    while i < MEM_LEN {
        if i >= off && i < off + LEN {
            bsv!(m[i] == data[i - off], "byte inside [a, a+n) holds the written data");
        } else {
            bsv!(m[i] == init[i], "byte outside [a, a+n) is unchanged");
        }
        i += 1;
    }
    kani::cover!(off == 7, "write starts at the last byte of a word");
    kani::cover!(off == 8, "word aligned start");
    kani::cover!(true, "BSV-END");
}

//@ harness: c15_write_exact_1
//@ property: C15
//@ obligation: H-C15-b
//@ tier: quick
//@ encodes: dap::yadap::session::data::write_bytes
//@ symbolic: 32 bytes of memory, start offset 0..8 (every alignment), the data byte
//@ bounds: n = 1 (instance)
//@ oracle: bytes in [a, a+n) = data, every other byte unchanged (reference model)
//@ stubs: Debugger::read_memory / write_memory -> 32-byte memory model; Backtrace::capture -> disabled
//@ unwindset: write_bytes=4; Debugger::read_memory=10; Debugger::write_memory=10; write_exact=34
//@ timeout: 900
#[kani::proof]
#[kani::stub(debugger::Debugger::read_memory, stub_read_memory)]
#[kani::stub(debugger::Debugger::write_memory, stub_write_memory)]
#[kani::stub(std::backtrace::Backtrace::capture, no_backtrace)]
#[kani::unwind(10)]
fn c15_write_exact_1() {
    write_exact::<1>();
}

//@ harness: c15_write_exact_2
//@ property: C15
//@ obligation: H-C15-b
//@ tier: quick
//@ encodes: dap::yadap::session::data::write_bytes
//@ symbolic: memory, start offset 0..8, two data bytes
//@ bounds: n = 2 (instance: may straddle a word boundary)
//@ oracle: reference model
//@ stubs: Debugger::read_memory / write_memory -> model; Backtrace::capture -> disabled
//@ unwindset: write_bytes=4; Debugger::read_memory=10; Debugger::write_memory=10; write_exact=34
//@ timeout: 900
#[kani::proof]
#[kani::stub(debugger::Debugger::read_memory, stub_read_memory)]
#[kani::stub(debugger::Debugger::write_memory, stub_write_memory)]
#[kani::stub(std::backtrace::Backtrace::capture, no_backtrace)]
#[kani::unwind(10)]
fn c15_write_exact_2() {
    write_exact::<2>();
}

//@ harness: c15_write_exact_8
//@ property: C15
//@ obligation: H-C15-b
//@ tier: thorough
//@ encodes: dap::yadap::session::data::write_bytes
//@ symbolic: memory, start offset 0..8, 8 data bytes
//@ bounds: n = 8 (instance)
//@ oracle: reference model
//@ stubs: Debugger::read_memory / write_memory -> model; Backtrace::capture -> disabled
//@ unwindset: write_bytes=4; Debugger::read_memory=10; Debugger::write_memory=10; write_exact=34
//@ timeout: 1500
#[kani::proof]
#[kani::stub(debugger::Debugger::read_memory, stub_read_memory)]
#[kani::stub(debugger::Debugger::write_memory, stub_write_memory)]
#[kani::stub(std::backtrace::Backtrace::capture, no_backtrace)]
#[kani::unwind(10)]
fn c15_write_exact_8() {
    write_exact::<8>();
}

//@ harness: c15_write_exact_9
//@ property: C15
//@ obligation: H-C15-b
//@ tier: quick
//@ encodes: dap::yadap::session::data::write_bytes
//@ symbolic: memory, start offset 0..8, 9 data bytes
//@ bounds: n = 9 (instance: always spans two or three words)
//@ oracle: reference model
//@ stubs: Debugger::read_memory / write_memory -> model; Backtrace::capture -> disabled
//@ unwindset: write_bytes=5; Debugger::read_memory=10; Debugger::write_memory=10; write_exact=34
//@ timeout: 1500
#[kani::proof]
#[kani::stub(debugger::Debugger::read_memory, stub_read_memory)]
#[kani::stub(debugger::Debugger::write_memory, stub_write_memory)]
#[kani::stub(std::backtrace::Backtrace::capture, no_backtrace)]
#[kani::unwind(10)]
fn c15_write_exact_9() {
    write_exact::<9>();
}

//@ harness: c15_write_exact_17
//@ property: C15
//@ obligation: H-C15-b
//@ tier: thorough
//@ encodes: dap::yadap::session::data::write_bytes
//@ symbolic: memory, start offset 0..8, 17 data bytes
//@ bounds: n = 17 (instance: three or four words)
//@ oracle: reference model
//@ stubs: Debugger::read_memory / write_memory -> model; Backtrace::capture -> disabled
//@ unwindset: write_bytes=6; Debugger::read_memory=10; Debugger::write_memory=10; write_exact=34
//@ timeout: 2400
#[kani::proof]
#[kani::stub(debugger::Debugger::read_memory, stub_read_memory)]
#[kani::stub(debugger::Debugger::write_memory, stub_write_memory)]
#[kani::stub(std::backtrace::Backtrace::capture, no_backtrace)]
#[kani::unwind(10)]
fn c15_write_exact_17() {
    write_exact::<17>();
}

// ---------------------------------------------------------------------------------------------
// C15-d: setVariable / setExpression text -> bytes for integer variables
// ---------------------------------------------------------------------------------------------

/// decimal reading of the text (digits, optional leading '-'); None = not a number
fn ref_decimal<const N: usize>(b: &[u8; N]) -> Option<i128> {
    let mut i = 0;
    let mut neg = false;
    if N > 0 && b[0] == b'-' {
        neg = true;
        i = 1;
    }
    if i >= N {
        return None;
    }
    let mut v: i128 = 0;
    while i < N {
        let c = b[i];
        if !(b'0'..=b'9').contains(&c) {
            return None;
        }
        v = v * 10 + (c - b'0') as i128;
        i += 1;
    }
    Some(if neg { -v } else { v })
}

/// error messages are not the subject (formatting a 128-bit number costs CBMC a 128-bit division per digit)
fn empty_message(_args: std::fmt::Arguments<'_>) -> String {
    String::new()
}

fn set_value<const N: usize>() {
    let b: [u8; N] = kani::any();
    let mut i = 0;
    while i < N {
        kani::assume((b'0'..=b'9').contains(&b[i]) || b[i] == b'-');
        i += 1;
    }
    let s = unsafe { std::str::from_utf8_unchecked(&b) };
    let want = ref_decimal(&b);
    // "a later read of that variable returns the written value": the bytes stored must decode, at the
    // variable's type, to the number the user typed; a number the type cannot hold must be refused
    let r = parse_set_value(ScalarKind::U8, s);
    match (&r, want) {
        (Ok(v), Some(w)) => bsv!(v.len() == 1 && v[0] as i128 == w, "u8: the stored byte reads back as the typed number"),
        (Ok(_), None) => bsv!(false, "u8: text that is not a number is refused"),
        // text with a minus sign is not unsigned-number text, even "-0": refusing it is fine
        (Err(_), Some(w)) => bsv!(b[0] == b'-' || w > u8::MAX as i128, "u8: a representable number is accepted"),
        (Err(_), None) => {}
    }
    kani::cover!(matches!(want, Some(w) if w > 255) , "typed number above u8::MAX");
    std::mem::forget(r);
    let r = parse_set_value(ScalarKind::I8, s);
    match (&r, want) {
        (Ok(v), Some(w)) => bsv!(v.len() == 1 && (v[0] as i8) as i128 == w, "i8: the stored byte reads back as the typed number"),
        (Ok(_), None) => bsv!(false, "i8: text that is not a number is refused"),
        (Err(_), Some(w)) => bsv!(w < i8::MIN as i128 || w > i8::MAX as i128, "i8: a representable number is accepted"),
        (Err(_), None) => {}
    }
    std::mem::forget(r);
    let r = parse_set_value(ScalarKind::I16, s);
    match (&r, want) {
        (Ok(v), Some(w)) => bsv!(v.len() == 2 && i16::from_le_bytes([v[0], v[1]]) as i128 == w, "i16: the stored bytes read back as the typed number"),
        (Ok(_), None) => bsv!(false, "i16: text that is not a number is refused"),
        (Err(_), Some(_)) => bsv!(false, "i16: every number of this length is representable"),
        (Err(_), None) => {}
    }
    std::mem::forget(r);
    kani::cover!(matches!(want, Some(w) if w < 0), "negative number");
    kani::cover!(want.is_none(), "not a number");
    kani::cover!(true, "BSV-END");
}

//@ harness: c15_set_value_int_3
//@ property: C15
//@ obligation: H-C15-d
//@ tier: quick
//@ encodes: dap::yadap::session::data::parse_set_value (u8, i8, i16 kinds; decimal path)
//@ symbolic: 3 bytes of text over [0-9-]
//@ bounds: text length 3 (instance: the shortest text that exceeds a byte); unwind 5
//@ oracle: setVariable makes a later read return the written value: the stored little-endian bytes decode at the variable's type to the number typed; a number the type cannot hold, or text that is not a number, is an error (never a silently different value)
//@ stubs: Backtrace::capture -> disabled (anyhow context); alloc::fmt::format -> empty (error message text)
//@ outside: hex input, floats, bool, char, wider kinds; composite values (serialize.rs)
//@ timeout: 1500
#[kani::proof]
#[kani::stub(std::backtrace::Backtrace::capture, no_backtrace)]
#[kani::stub(alloc::fmt::format, empty_message)]
#[kani::unwind(5)]
fn c15_set_value_int_3() {
    set_value::<3>();
}

// ---- C08: writeMemory with a hostile memoryReference / offset -------------------------------------------------
static mut HOSTILE_BASE: usize = 0;
fn stub_parse_reference(_reference: &str) -> anyhow::Result<usize> {
    Ok(unsafe { HOSTILE_BASE })
}
/// nothing is mapped outside the 32-byte window: peeks and pokes fail there (checked arithmetic: the address may be anywhere)
fn stub_read_memory_anywhere(_this: &debugger::Debugger, addr: usize, n: usize) -> Result<Vec<u8>, debugger::Error> {
    let inside = addr >= BASE && n <= 8 && addr - BASE <= MEM_LEN - n;
    if !inside {
        return Err(debugger::Error::ProcessNotStarted);
    }
    stub_read_memory(_this, addr, n)
}
fn stub_write_memory_anywhere(_this: &debugger::Debugger, addr: usize, value: usize) -> Result<(), debugger::Error> {
    let inside = addr >= BASE && addr - BASE <= MEM_LEN - 8;
    if !inside {
        return Err(debugger::Error::ProcessNotStarted);
    }
    stub_write_memory(_this, addr, value)
}
fn empty_string(_a: std::fmt::Arguments<'_>) -> String {
    String::new()
}

//@ harness: c08_write_memory_hostile_address
//@ property: C08
//@ obligation: C08 DAP numerics
//@ tier: quick
//@ encodes: parse_memory_reference_with_offset composed with write_bytes exactly as handle_write_memory composes them
//@ symbolic: the parsed memoryReference (full usize), the offset (full i64), two data bytes, 32 bytes of mapped memory
//@ bounds: n = 2 data bytes (instance: may straddle a word boundary); loops as c15_write_exact_2
//@ oracle: for every reference and offset the request ends in Ok or Err - no arithmetic overflow, no panic (every check CBMC generates in the reachable repository code is an obligation); Ok is reported only when both bytes really are in memory at reference + offset; an address with nothing mapped is an error
//@ stubs: parse_memory_reference -> arbitrary usize (text parsing: c15_memory_reference_text_2); Debugger::read_memory / write_memory -> 32-byte window, error elsewhere; Backtrace::capture -> disabled; alloc::fmt::format -> empty
//@ outside: base64 decoding, the JSON envelope, data longer than 2 bytes
//@ unwindset: write_bytes=4; ?stub_read_memory=10; ?stub_write_memory=10; ?Debugger::read_memory=10; ?Debugger::write_memory=10; c08_write_memory_hostile_address=34
//@ timeout: 1200
#[kani::proof]
#[kani::stub(super::super::parse_memory_reference, stub_parse_reference)]
#[kani::stub(debugger::Debugger::read_memory, stub_read_memory_anywhere)]
#[kani::stub(debugger::Debugger::write_memory, stub_write_memory_anywhere)]
#[kani::stub(std::backtrace::Backtrace::capture, no_backtrace)]
#[kani::stub(alloc::fmt::format, empty_string)]
#[kani::unwind(10)]
fn c08_write_memory_hostile_address() {
    let init: [u8; MEM_LEN] = kani::any();
    unsafe {
        MEM = init;
        WRITES = 0;
        WRITE_FAIL_AT = 0;
        HOSTILE_BASE = kani::any();
    }
    let offset: i64 = kani::any();
    let data: [u8; 2] = kani::any();
    let fake = MaybeUninit::<debugger::Debugger>::uninit();
    let dbg: &debugger::Debugger = unsafe { &*fake.as_ptr() };
    let sum = unsafe { HOSTILE_BASE } as i128 + offset as i128;
    // handle_write_memory: addr = parse_memory_reference_with_offset(..)?; write_bytes(dbg, addr, &bytes)?
    let mut wrote = false;
    let addr = super::super::parse_memory_reference_with_offset("x", offset);
    if let Ok(a) = &addr {
        let r = write_bytes(dbg, *a, &data);
        wrote = r.is_ok();
        std::mem::forget(r);
    }
    if wrote {
        let lo = BASE as i128;
        bsv!(sum >= lo && sum + 2 <= lo + MEM_LEN as i128, "success is reported only for an address where memory exists");
        if sum >= lo && sum + 2 <= lo + MEM_LEN as i128 {
            let off = (sum - lo) as usize;
            let m = unsafe { MEM };
            bsv!(m[off] == data[0] && m[off + 1] == data[1], "success is reported only when the bytes were really written at reference + offset");
        }
    } else {
        let m = unsafe { MEM };
        let mut i = 0;
        let mut same = true;
        while i < MEM_LEN {
            same &= m[i] == init[i];
            i += 1;
        }
        bsv!(same || sum >= BASE as i128 - 1, "a refused write far from mapped memory changes nothing");
    }
    kani::cover!(wrote && offset < 0, "write through a negative offset");
    kani::cover!(!wrote && addr.is_ok(), "well-formed address with nothing mapped: error from the write");
    kani::cover!(addr.is_err() && sum > i64::MAX as i128, "address beyond the representable range refused");
    std::mem::forget(addr);
    kani::cover!(true, "BSV-END");
}
