//! inject: src/dap/yadap/session/other.rs
//! t7: src/dap/yadap/session/mod.rs, src/dap/yadap/session/breakpoint.rs, src/dap/yadap/session/control.rs, src/dap/yadap/session/other.rs, src/dap/yadap/session/frame.rs
//
// C08 — a DAP `completions` request with any text / column either succeeds or yields an error:
// the client-supplied column (any i64, counted by the client in bytes, UTF-16 units or chars) must
// never index outside the text.
use super::*;

macro_rules! bsv {
    ($c:expr, $m:literal) => {
        assert!($c, concat!("BSV: ", $m))
    };
}

fn completion<const MB: bool>() {
    // "ab:c" (4 ASCII characters) or "a\u{e9}b" (3 characters in 4 bytes)
    let text: &str = if MB { "a\u{e9}b" } else { "ab:c" };
    let nchars: i64 = if MB { 3 } else { 4 };
    let column: Option<i64> = if kani::any() { Some(kani::any()) } else { None };
    let (prefix, start_column, length) = completion_prefix(text, column);
    bsv!(start_column >= 1 && length >= 0, "start column is 1-based, length non-negative");
    bsv!(start_column + length - 1 <= nchars, "the completion window lies inside the text");
    let cursor = match column {
        None => nchars + 1,
        Some(c) => {
            if c < 1 {
                1
            } else if c > nchars + 1 {
                nchars + 1
            } else {
                c
            }
        }
    };
    bsv!(start_column + length == cursor, "the window ends at the cursor (clamped into the text)");
    bsv!(prefix.len() as i64 >= length, "the prefix holds the window's characters");
    kani::cover!(matches!(column, Some(c) if c == 5), "column 5: in range counted in bytes, out of range counted in characters for the non-ASCII text");
    kani::cover!(matches!(column, Some(c) if c < 0), "negative column");
    kani::cover!(length == if MB { 1 } else { 2 }, "identifier characters before the cursor");
    kani::cover!(true, "BSV-END");
    std::mem::forget(prefix);
}

//@ harness: c08_completion_prefix_ascii
//@ property: C08
//@ obligation: C08 DAP numerics
//@ tier: quick
//@ encodes: completion_prefix (the text/column arithmetic of the DAP `completions` handler)
//@ symbolic: the column (absent or any i64)
//@ bounds: the text "ab:c" (instance: a symbolic text makes the String/Vec<char> construction too expensive); unwind 7
//@ oracle: no panic for any column; the reported start column and length describe a window inside the text that ends at the (clamped) cursor
//@ outside: the symbol search behind the handler (needs a Debugger); other texts
//@ timeout: 1200
#[kani::proof]
#[kani::unwind(7)]
fn c08_completion_prefix_ascii() {
    completion::<false>();
}

//@ harness: c08_completion_prefix_multibyte
//@ property: C08
//@ obligation: C08 DAP numerics
//@ tier: quick
//@ encodes: completion_prefix
//@ symbolic: the column (absent or any i64; clients count in bytes, UTF-16 units or characters)
//@ bounds: the text "a\u{e9}b" - 3 characters in 4 bytes (instance); unwind 7
//@ oracle: as c08_completion_prefix_ascii, with the column clamped against the number of characters
//@ timeout: 1200
#[kani::proof]
#[kani::unwind(7)]
fn c08_completion_prefix_multibyte() {
    completion::<true>();
}
