//! inject: src/debugger/variable/value/specialization/hashbrown.rs
//
// C06-b — the control-byte mask kernel of the hashbrown scan (kept apart from the table-scan harnesses so that a
// change to the mask helpers' names cannot stop those from being built).
use super::*;

macro_rules! bsv {
    ($c:expr, $m:literal) => {
        assert!($c, concat!("BSV: ", $m))
    };
}

//@ harness: c06_group_mask
//@ property: C06
//@ obligation: H-C06-b
//@ tier: quick
//@ encodes: GroupReflection::match_empty_or_deleted, BitMask::{invert, lowest_set_bit, remove_lowest_bit, trailing_zeros}
//@ symbolic: all 16 control bytes of a group (2^128 groups; the repository's own test samples 100)
//@ bounds: one group; loops bounded at 18
//@ oracle: hashbrown's control-byte convention: top bit set = EMPTY (0xFF) or DELETED (0x80), top bit clear = FULL; draining the inverted mask with lowest_set_bit / remove_lowest_bit visits exactly the FULL positions in increasing order
//@ timeout: 900
#[kani::proof]
#[kani::unwind(18)]
fn c06_group_mask() {
    let bytes: [u8; 16] = kani::any();
    let mask = GroupReflection(bytes).match_empty_or_deleted();
    let mut i = 0;
    while i < 16 {
        bsv!(((mask.0 >> i) & 1 == 1) == (bytes[i] & 0x80 != 0), "mask bit i <=> control byte i is EMPTY or DELETED");
        i += 1;
    }
    let mut full = mask.invert();
    let mut expect = 0usize;
    let mut steps = 0;
    while steps < 17 {
        // next FULL position at or after `expect`
        while expect < 16 && bytes[expect] & 0x80 != 0 {
            expect += 1;
        }
        match full.lowest_set_bit() {
            None => {
                bsv!(expect == 16, "the drain ends only when no FULL byte is left");
                break;
            }
            Some(idx) => {
                bsv!(idx == expect, "FULL positions are visited in increasing order, none skipped or invented");
                full = full.remove_lowest_bit();
                expect += 1;
            }
        }
        steps += 1;
    }
    kani::cover!(bytes[15] & 0x80 == 0 && bytes[0] == 0x80, "tombstone at 0, element at 15");
    kani::cover!(true, "BSV-END");
}

