//! inject: src/debugger/variable/value/specialization/hashbrown.rs
//
// C06-b — which buckets of a hashbrown table the debugger reports as elements.
// The debuggee's table lives in a real harness allocation (the code does pointer arithmetic on
// debuggee addresses; a made-up integer address makes Kani prune every path, DESIGN probe 13).
use super::*;

macro_rules! bsv {
    ($c:expr, $m:literal) => {
        assert!($c, concat!("BSV: ", $m))
    };
}

fn table_scan<const BUCKETS: usize, const KV: usize, const DATA: usize, const LEN: usize, const MAXN: usize>() {
    // layout: [ DATA bytes of buckets | control bytes: BUCKETS + 16 ]
    let mut buf: [u8; LEN] = kani::any();
    let ctrl_off = DATA;
    // hashbrown: in a table smaller than a group the control bytes [buckets, 16) are EMPTY
    let mut i = 0;
    while i < 16 {
        if i >= BUCKETS {
            buf[ctrl_off + i] = 0xFF;
        }
        i += 1;
    }
    // instance bound: at most MAXN elements in the table (MAXN = BUCKETS: no restriction)
    let mut full = 0usize;
    let mut i = 0;
    while i < BUCKETS {
        if buf[ctrl_off + i] & 0x80 == 0 {
            full += 1;
        }
        i += 1;
    }
    kani::assume(full <= MAXN);
    let base = buf.as_ptr();
    let ctrl_ptr = unsafe { base.add(ctrl_off) };
    let ctrl_addr = ctrl_ptr as usize;
    unsafe {
        TABLE = base;
        TABLE_LEN = LEN;
    }
    let refl = HashmapReflection::new(ctrl_ptr, BUCKETS - 1, KV);
    let it = refl.iter(Pid::from_raw(7));
    bsv!(it.is_ok(), "first group loads");
    let mut it = match it {
        Ok(it) => it,
        Err(_) => return,
    };
    let mut seen = [false; BUCKETS];
    let mut n = 0usize;
    let mut rounds = 0;
    while rounds <= MAXN {
        let nx = it.next();
        bsv!(nx.is_ok(), "groups inside the table load");
        match nx {
            Ok(Some(b)) => {
                let loc = b.location();
                let mut idx = BUCKETS;
                let mut j = 0;
                while j < BUCKETS {
                    if loc == ctrl_addr - (j + 1) * KV {
                        idx = j;
                    }
                    j += 1;
                }
                bsv!(idx < BUCKETS, "a reported element is a bucket of the table (nothing invented)");
                if idx < BUCKETS {
                    bsv!(buf[ctrl_off + idx] & 0x80 == 0, "a reported element is FULL (no tombstone or empty slot shown)");
                    bsv!(!seen[idx], "no element is reported twice");
                    seen[idx] = true;
                }
                bsv!(b.size() == KV, "element size");
                n += 1;
            }
            _ => break,
        }
        rounds += 1;
    }
    let mut j = 0;
    while j < BUCKETS {
        if buf[ctrl_off + j] & 0x80 == 0 {
            bsv!(seen[j], "no FULL bucket is missing");
        }
        j += 1;
    }
    kani::cover!(MAXN < 2 || n >= 2, "two or more elements");
    kani::cover!(seen[BUCKETS - 1], "element in the last bucket");
    kani::cover!(BUCKETS < 2 || (buf[ctrl_off] == 0x80 && seen[BUCKETS - 1]), "tombstone in bucket 0, element in the last bucket");
    kani::cover!(true, "BSV-END");
}

static mut TABLE: *const u8 = std::ptr::null();
static mut TABLE_LEN: usize = 0;

fn stub_read(_pid: Pid, addr: usize, n: usize) -> Result<Vec<u8>, nix::Error> {
    let base = unsafe { TABLE } as usize;
    let len = unsafe { TABLE_LEN };
    if n != 16 || addr < base || addr + n > base + len {
        return Err(nix::errno::Errno::EIO);
    }
    let off = addr - base;
    let mut v = Vec::with_capacity(16);
    let mut i = 0;
    while i < 16 {
        v.push(unsafe { *TABLE.add(off + i) });
        i += 1;
    }
    Ok(v)
}

macro_rules! scan {
    ($name:ident, $b:literal, $kv:literal, $data:expr, $unw:literal, $maxn:literal) => {
        #[kani::proof]
        #[kani::stub(crate::debugger::read_memory_by_pid, stub_read)]
        #[kani::unwind($unw)]
        fn $name() {
            table_scan::<$b, $kv, { $data }, { $data + $b + 16 }, $maxn>();
        }
    };
}

//@ harness: c06_hashbrown_scan_b4
//@ property: C06
//@ obligation: H-C06-b
//@ tier: quick
//@ encodes: HashmapReflection::{new, iter, buckets, data_end}, BucketIterator::next, BucketReflection::{next_n, location, size}, GroupReflection::{load, match_empty_or_deleted}, BitMask
//@ symbolic: every control byte of the table (FULL with any h2 tag, EMPTY, DELETED tombstones, arbitrary garbage)
//@ bounds: 4 buckets, 8-byte entries (instance: table smaller than a group); loops bounded at 18
//@ oracle: the iterator yields exactly { ctrl - (i+1)*kv_size : ctrl[i] top bit clear, i < buckets }, each once
//@ stubs: debugger::read_memory_by_pid -> the real harness allocation holding the table (EIO outside it)
//@ assumes: hashbrown's layout guarantee that control bytes [buckets, 16) of a table smaller than a group are EMPTY
//@ unwindset: table_scan=18; ?BucketIterator.*next=3; ?match_empty_or_deleted=17; ?read_memory_by_pid=17
//@ timeout: 1200
scan!(c06_hashbrown_scan_b4, 4, 8, 16 * 8, 18, 4);

//@ harness: c06_hashbrown_scan_b1
//@ property: C06
//@ obligation: H-C06-b
//@ tier: thorough
//@ encodes: HashmapReflection::iter, BucketIterator::next
//@ symbolic: control bytes
//@ bounds: 1 bucket, 1-byte entries; loops 18
//@ oracle: as c06_hashbrown_scan_b4
//@ stubs: read_memory_by_pid -> harness allocation
//@ assumes: control bytes [buckets, 16) EMPTY
//@ unwindset: table_scan=18; ?BucketIterator.*next=3; ?match_empty_or_deleted=17; ?read_memory_by_pid=17
//@ timeout: 1200
scan!(c06_hashbrown_scan_b1, 1, 1, 16, 18, 1);

//@ harness: c06_hashbrown_scan_b8
//@ property: C06
//@ obligation: H-C06-b
//@ tier: thorough
//@ encodes: HashmapReflection::iter, BucketIterator::next
//@ symbolic: control bytes
//@ bounds: 8 buckets, 24-byte entries; loops 18
//@ oracle: as c06_hashbrown_scan_b4
//@ stubs: read_memory_by_pid -> harness allocation
//@ assumes: control bytes [buckets, 16) EMPTY
//@ unwindset: table_scan=18; ?BucketIterator.*next=3; ?match_empty_or_deleted=17; ?read_memory_by_pid=17
//@ timeout: 1800
scan!(c06_hashbrown_scan_b8, 8, 24, 16 * 24, 18, 8);

//@ harness: c06_hashbrown_scan_b16
//@ property: C06
//@ obligation: H-C06-b
//@ tier: thorough
//@ encodes: HashmapReflection::iter, BucketIterator::next
//@ symbolic: control bytes
//@ bounds: 16 buckets (exactly one group), 8-byte entries; loops 18
//@ oracle: as c06_hashbrown_scan_b4
//@ stubs: read_memory_by_pid -> harness allocation
//@ unwindset: table_scan=18; ?BucketIterator.*next=3; ?match_empty_or_deleted=17; ?read_memory_by_pid=17
//@ mem_gb: 32
//@ timeout: 3600
scan!(c06_hashbrown_scan_b16, 16, 8, 16 * 8, 18, 16);

//@ harness: c06_hashbrown_scan_b32
//@ property: C06
//@ obligation: H-C06-b
//@ tier: quick
//@ encodes: HashmapReflection::iter, BucketIterator::next (group advance path)
//@ symbolic: control bytes of both groups
//@ bounds: 32 buckets (two groups), 4-byte entries, at most 3 elements in the table at arbitrary positions (instance bound: every it.next() call may be the one that crosses the group boundary, which makes 33 calls too expensive); harness loops 34, group loops 17
//@ oracle: as c06_hashbrown_scan_b4, across the group boundary (bucket 16.. are found through next_n(16))
//@ stubs: read_memory_by_pid -> harness allocation
//@ unwindset: table_scan=34; ?BucketIterator.*next=4; ?match_empty_or_deleted=17; ?read_memory_by_pid=17
//@ timeout: 3600
//@ mem_gb: 16
scan!(c06_hashbrown_scan_b32, 32, 4, 32 * 4, 18, 3);
