//! inject: src/debugger/breakpoint.rs
//! t7: src/debugger/breakpoint.rs
//
// C01 / C02 — INT3 patching at the Breakpoint and BreakpointRegistry level.
// Environment (T1): 24 bytes of debuggee text at integer addresses BASE..BASE+24; ptrace::read /
// ptrace::write are stubbed onto it (word granular, EIO outside the window, optional write fault).
use super::*;
use nix::libc::c_long;

macro_rules! bsv {
    ($c:expr, $m:literal) => {
        assert!($c, concat!("BSV: ", $m))
    };
}

const BASE: usize = 0x40_1000;
const MEM_LEN: usize = 24;
static mut MEM: [u8; MEM_LEN] = [0; MEM_LEN];
/// fail the k-th ptrace::write from now (0 = never)
static mut WRITE_FAIL_AT: usize = 0;
static mut WRITE_CALLS: usize = 0;
static mut READ_FAIL: bool = false;

fn word_at(off: usize) -> u64 {
    unsafe {
        (MEM[off] as u64)
            | (MEM[off + 1] as u64) << 8
            | (MEM[off + 2] as u64) << 16
            | (MEM[off + 3] as u64) << 24
            | (MEM[off + 4] as u64) << 32
            | (MEM[off + 5] as u64) << 40
            | (MEM[off + 6] as u64) << 48
            | (MEM[off + 7] as u64) << 56
    }
}
fn stub_read(_pid: Pid, addr: *mut c_void) -> nix::Result<c_long> {
    let a = addr as usize;
    if unsafe { READ_FAIL } || a < BASE || a > BASE + MEM_LEN - 8 {
        return Err(nix::errno::Errno::EIO);
    }
    Ok(word_at(a - BASE) as c_long)
}
unsafe fn stub_write(_pid: Pid, addr: *mut c_void, data: *mut c_void) -> nix::Result<()> {
    let a = addr as usize;
    unsafe {
        WRITE_CALLS += 1;
        if WRITE_FAIL_AT != 0 && WRITE_CALLS == WRITE_FAIL_AT {
            return Err(nix::errno::Errno::EIO);
        }
    }
    if a < BASE || a > BASE + MEM_LEN - 8 {
        return Err(nix::errno::Errno::EIO);
    }
    let off = a - BASE;
    let w = data as usize as u64;
    unsafe {
        MEM[off] = w as u8;
        MEM[off + 1] = (w >> 8) as u8;
        MEM[off + 2] = (w >> 16) as u8;
        MEM[off + 3] = (w >> 24) as u8;
        MEM[off + 4] = (w >> 32) as u8;
        MEM[off + 5] = (w >> 40) as u8;
        MEM[off + 6] = (w >> 48) as u8;
        MEM[off + 7] = (w >> 56) as u8;
    }
    Ok(())
}

fn mk_bp(off: usize, ty: BrkptType, num: u32) -> Breakpoint {
    Breakpoint::new_inner(
        RelocatedAddress::from(BASE + off),
        Pid::from_raw(7),
        num,
        None,
        ty,
        PathBuf::new(),
    )
}
fn any_off() -> usize {
    let off: usize = kani::any();
    kani::assume(off <= MEM_LEN - 8);
    off
}
fn init_mem() -> [u8; MEM_LEN] {
    let init: [u8; MEM_LEN] = kani::any();
    unsafe {
        MEM = init;
        WRITE_FAIL_AT = 0;
        WRITE_CALLS = 0;
        READ_FAIL = false;
    }
    init
}
fn mem() -> [u8; MEM_LEN] {
    unsafe { MEM }
}
/// memory equals `want` everywhere except (optionally) at `hole`
fn same_except(got: &[u8; MEM_LEN], want: &[u8; MEM_LEN], hole: usize, hole2: usize) -> bool {
    let mut ok = true;
    let mut i = 0;
    while i < MEM_LEN {
        if i != hole && i != hole2 && got[i] != want[i] {
            ok = false;
        }
        i += 1;
    }
    ok
}
const NONE: usize = usize::MAX;

//@ harness: c01_bp_rearm
//@ property: C01
//@ obligation: H-C01-a
//@ tier: quick
//@ encodes: Breakpoint::{new_inner, enable, disable, is_enabled}
//@ symbolic: 24 bytes of text, breakpoint offset 0..16 (every alignment and word overlap), one foreign byte store (any offset, any value) performed by the single-stepped instruction while the breakpoint is lifted
//@ bounds: sequence enable; disable; <foreign store>; enable (= step_over_breakpoint around one single step); 24-byte window; unwind 26 (harness compare loops only, code under test is loop-free)
//@ oracle: after enable the byte is 0xCC, saved_data the byte it replaced and no other byte differs; after disable memory is the original image; after the re-arm memory is the image as modified by the program with 0xCC at the breakpoint and saved_data the program's current byte
//@ stubs: nix::sys::ptrace::read / write -> 24-byte memory model (8-byte words, EIO outside)
//@ outside: that the CPU traps exactly on 0xCC; Debugger::step_over_breakpoint's own sequencing (needs a live Debugger)
//@ timeout: 900
#[kani::proof]
#[kani::stub(nix::sys::ptrace::read, stub_read)]
#[kani::stub(nix::sys::ptrace::write, stub_write)]
#[kani::unwind(26)]
fn c01_bp_rearm() {
    let init = init_mem();
    let off = any_off();
    let bp = mk_bp(off, BrkptType::UserDefined, 1);
    bsv!(!bp.is_enabled(), "new breakpoint is not armed");
    let r = bp.enable();
    bsv!(r.is_ok(), "enable succeeds inside mapped memory");
    let m = mem();
    bsv!(m[off] == 0xCC, "INT3 at the breakpoint byte");
    bsv!(same_except(&m, &init, off, NONE), "enable touches no other byte");
    bsv!(bp.saved_data.get() == init[off], "saved byte is the original");
    bsv!(bp.is_enabled(), "armed");
    let r2 = bp.disable();
    bsv!(r2.is_ok(), "disable succeeds");
    bsv!(same_except(&mem(), &init, NONE, NONE), "disable restores the original image");
    bsv!(!bp.is_enabled(), "lifted");
    // the single-stepped instruction may store one byte anywhere
    let foff: usize = kani::any();
    kani::assume(foff < MEM_LEN);
    let fval: u8 = kani::any();
    let do_store: bool = kani::any();
    let mut prog = init;
    if do_store {
        unsafe { MEM[foff] = fval };
        prog[foff] = fval;
    }
    let r3 = bp.enable();
    bsv!(r3.is_ok(), "re-arm succeeds");
    let m = mem();
    bsv!(m[off] == 0xCC, "re-armed: keeps working on later arrivals");
    bsv!(same_except(&m, &prog, off, NONE), "re-arm keeps the program's own store");
    bsv!(bp.saved_data.get() == prog[off], "re-arm saves the program's current byte");
    kani::cover!(off == 16, "last word of the window");
    kani::cover!(do_store && foff == off, "program overwrote the breakpoint byte while lifted");
    kani::cover!(do_store && foff == off + 1, "program store inside the patched word");
    kani::cover!(true, "BSV-END");
    std::mem::forget((r, r2, r3));
    std::mem::forget(bp);
}

//@ harness: c01_bp_lift_keeps_neighbours
//@ property: C01
//@ obligation: H-C01-a
//@ tier: quick
//@ encodes: Breakpoint::{new_inner, enable, disable, is_enabled}
//@ symbolic: 24 bytes of text, breakpoint offset 0..16, one foreign byte store (any other offset, any value - another breakpoint's INT3 going in or coming out next to this one, or a store by another thread) performed WHILE the breakpoint is armed
//@ bounds: sequence enable; <foreign store>; disable; 24-byte window; unwind 26 (harness compare loops only)
//@ oracle: lifting a breakpoint restores its own byte and nothing else: memory afterwards is the original image with the foreign store applied (a neighbour's INT3 in the same ptrace word survives, a removed neighbour is not resurrected)
//@ stubs: nix::sys::ptrace::read / write -> 24-byte memory model (8-byte words, EIO outside)
//@ outside: stores to the breakpoint's own byte while it is armed (self-modifying code under a breakpoint)
//@ timeout: 900
#[kani::proof]
#[kani::stub(nix::sys::ptrace::read, stub_read)]
#[kani::stub(nix::sys::ptrace::write, stub_write)]
#[kani::unwind(26)]
fn c01_bp_lift_keeps_neighbours() {
    let init = init_mem();
    let off = any_off();
    let bp = mk_bp(off, BrkptType::UserDefined, 1);
    let r = bp.enable();
    bsv!(r.is_ok(), "enable succeeds inside mapped memory");
    let foff: usize = kani::any();
    kani::assume(foff < MEM_LEN && foff != off);
    let fval: u8 = kani::any();
    let mut want = init;
    unsafe { MEM[foff] = fval };
    want[foff] = fval;
    let r2 = bp.disable();
    bsv!(r2.is_ok(), "disable succeeds");
    bsv!(same_except(&mem(), &want, NONE, NONE), "lifting a breakpoint restores its own byte and leaves every other byte as it is now");
    bsv!(!bp.is_enabled(), "lifted");
    kani::cover!(foff == off + 1 && fval == 0xCC, "a neighbouring breakpoint armed one byte further, same word");
    kani::cover!(off % 8 == 7 && foff + 1 == off, "neighbour just below, breakpoint in the last byte of a word");
    kani::cover!(true, "BSV-END");
    std::mem::forget((r, r2));
    std::mem::forget(bp);
}

//@ harness: c02_two_patch_step
//@ property: C02
//@ obligation: H-C02-a1
//@ tier: quick
//@ encodes: Breakpoint::{enable, disable, is_enabled} on two breakpoints
//@ symbolic: pristine image M0 (24 bytes), offsets of two distinct breakpoints 0..16 (same ptrace word in both orders, adjacent words, distinct words), which of them are currently armed, which one the operation targets
//@ bounds: one operation (arm an idle one / lift an armed one) from an arbitrary state satisfying Inv — an inductive step that covers histories of any length for two simultaneously live breakpoints; unwind 26
//@ oracle: Inv(M0): memory equals M0 except 0xCC at every armed breakpoint, and each armed breakpoint's saved_data is M0 at its address.  Inv holds again after the step; with both lifted memory is M0 bit for bit
//@ stubs: ptrace::read / write -> memory model
//@ assumes: two breakpoints never share an address (the registry keys them by address); the pristine bytes are arbitrary, including a program's own 0xCC
//@ timeout: 900
#[kani::proof]
#[kani::stub(nix::sys::ptrace::read, stub_read)]
#[kani::stub(nix::sys::ptrace::write, stub_write)]
#[kani::unwind(26)]
fn c02_two_patch_step() {
    let m0 = init_mem();
    let o1 = any_off();
    let o2 = any_off();
    kani::assume(o1 != o2);
    let b1 = mk_bp(o1, BrkptType::UserDefined, 1);
    let b2 = mk_bp(o2, BrkptType::Temporary, 0);
    let e1: bool = kani::any();
    let e2: bool = kani::any();
    // arbitrary state satisfying Inv
    unsafe {
        if e1 {
            MEM[o1] = 0xCC;
        }
        if e2 {
            MEM[o2] = 0xCC;
        }
    }
    b1.enabled.set(e1);
    b2.enabled.set(e2);
    b1.saved_data.set(if e1 { m0[o1] } else { kani::any() });
    b2.saved_data.set(if e2 { m0[o2] } else { kani::any() });
    let target_first: bool = kani::any();
    let (t, te) = if target_first { (&b1, e1) } else { (&b2, e2) };
    let r = if te { t.disable() } else { t.enable() };
    bsv!(r.is_ok(), "operation succeeds");
    let (n1, n2) = if target_first { (!e1, e2) } else { (e1, !e2) };
    bsv!(b1.is_enabled() == n1 && b2.is_enabled() == n2, "only the targeted breakpoint changes state");
    let m = mem();
    bsv!(m[o1] == if n1 { 0xCC } else { m0[o1] }, "byte of breakpoint 1 per Inv");
    bsv!(m[o2] == if n2 { 0xCC } else { m0[o2] }, "byte of breakpoint 2 per Inv (a neighbour's INT3 is neither clobbered nor resurrected)");
    bsv!(same_except(&m, &m0, o1, o2), "no byte outside the two breakpoints differs from the pristine image");
    if n1 {
        bsv!(b1.saved_data.get() == m0[o1], "saved byte 1 is pristine");
    }
    if n2 {
        bsv!(b2.saved_data.get() == m0[o2], "saved byte 2 is pristine");
    }
    kani::cover!(o2 > o1 && o2 - o1 < 8 && e2 && !e1 && target_first, "arm the lower one while a higher neighbour in the same word is armed");
    kani::cover!(o1 > o2 && o1 - o2 < 8 && e1 && e2 && !target_first, "lift the lower one while the higher neighbour stays armed");
    kani::cover!(!n1 && !n2, "both lifted");
    kani::cover!(m0[o1] == 0xCC && !n1 && e1, "lifting a breakpoint placed on a program's own INT3 byte");
    kani::cover!(true, "BSV-END");
    std::mem::forget(r);
    std::mem::forget((b1, b2));
}

//@ harness: c02_patch_faults
//@ property: C02
//@ obligation: H-C02-c
//@ tier: quick
//@ encodes: Breakpoint::{enable, disable, is_enabled}
//@ symbolic: memory, offset, whether the breakpoint is armed, whether ptrace::read or the ptrace::write fails (fault schedule)
//@ bounds: one operation with one injected fault; unwind 26
//@ oracle: a failed operation returns Err, changes no byte of memory, and is_enabled() still tells the truth about the patched byte
//@ stubs: ptrace::read / write -> memory model with fault injection
//@ assumes: none on the pristine image (a program's own 0xCC byte included)
//@ timeout: 900
#[kani::proof]
#[kani::stub(nix::sys::ptrace::read, stub_read)]
#[kani::stub(nix::sys::ptrace::write, stub_write)]
#[kani::unwind(26)]
fn c02_patch_faults() {
    let m0 = init_mem();
    let off = any_off();
    let bp = mk_bp(off, BrkptType::UserDefined, 1);
    let armed: bool = kani::any();
    if armed {
        unsafe { MEM[off] = 0xCC };
        bp.enabled.set(true);
        bp.saved_data.set(m0[off]);
    }
    let before = mem();
    let read_fault: bool = kani::any();
    unsafe {
        READ_FAIL = read_fault;
        WRITE_FAIL_AT = if read_fault { 0 } else { 1 };
    }
    let r = if armed { bp.disable() } else { bp.enable() };
    bsv!(r.is_err(), "a ptrace fault is reported");
    let m = mem();
    bsv!(same_except(&m, &before, NONE, NONE), "a failed patch changes no byte");
    bsv!(bp.is_enabled() == armed, "state flag unchanged by the failed operation");
    if m0[off] != 0xCC {
        bsv!(bp.is_enabled() == (m[off] == 0xCC), "is_enabled tells the truth about the byte");
    }
    // the fault was transient: the same operation now succeeds and restores / patches correctly
    unsafe {
        READ_FAIL = false;
        WRITE_FAIL_AT = 0;
    }
    let r2 = if armed { bp.disable() } else { bp.enable() };
    bsv!(r2.is_ok(), "retry succeeds");
    let m = mem();
    if armed {
        bsv!(same_except(&m, &m0, NONE, NONE), "retry of the lift restores the pristine image");
    } else {
        bsv!(m[off] == 0xCC && bp.saved_data.get() == m0[off] && same_except(&m, &m0, off, NONE), "retry of the arm patches correctly");
    }
    kani::cover!(armed && !read_fault, "write fault while lifting");
    kani::cover!(!armed && read_fault, "read fault while arming");
    kani::cover!(true, "BSV-END");
    std::mem::forget((r, r2));
    std::mem::forget(bp);
}

//@ harness: c02_three_patch_step
//@ property: C02
//@ obligation: H-C02-a1
//@ tier: thorough
//@ encodes: Breakpoint::{enable, disable, is_enabled} on three breakpoints
//@ symbolic: pristine image M0 (24 bytes), offsets of three pairwise distinct breakpoints 0..16, which are armed, which one the operation targets
//@ bounds: one operation from an arbitrary state satisfying Inv - inductive step for three simultaneously live breakpoints (all three may share one ptrace word); unwind 26
//@ oracle: as c02_two_patch_step, for three breakpoints
//@ stubs: ptrace::read / write -> memory model
//@ assumes: the three breakpoints have distinct addresses
//@ timeout: 1800
#[kani::proof]
#[kani::stub(nix::sys::ptrace::read, stub_read)]
#[kani::stub(nix::sys::ptrace::write, stub_write)]
#[kani::unwind(26)]
fn c02_three_patch_step() {
    let m0 = init_mem();
    let o = [any_off(), any_off(), any_off()];
    kani::assume(o[0] != o[1] && o[0] != o[2] && o[1] != o[2]);
    let b = [mk_bp(o[0], BrkptType::UserDefined, 1), mk_bp(o[1], BrkptType::Temporary, 0), mk_bp(o[2], BrkptType::UserDefined, 2)];
    let e: [bool; 3] = kani::any();
    let mut i = 0;
    while i < 3 {
        if e[i] {
            unsafe { MEM[o[i]] = 0xCC };
        }
        b[i].enabled.set(e[i]);
        b[i].saved_data.set(if e[i] { m0[o[i]] } else { kani::any() });
        i += 1;
    }
    let t: usize = kani::any();
    kani::assume(t < 3);
    let r = if e[t] { b[t].disable() } else { b[t].enable() };
    bsv!(r.is_ok(), "operation succeeds");
    let m = mem();
    let mut i = 0;
    while i < 3 {
        let now = if i == t { !e[i] } else { e[i] };
        bsv!(b[i].is_enabled() == now, "only the targeted breakpoint changes state");
        bsv!(m[o[i]] == if now { 0xCC } else { m0[o[i]] }, "each breakpoint byte per Inv (neighbours' INT3 neither clobbered nor resurrected)");
        if now {
            bsv!(b[i].saved_data.get() == m0[o[i]], "saved byte is pristine");
        }
        i += 1;
    }
    let mut k = 0;
    while k < MEM_LEN {
        if k != o[0] && k != o[1] && k != o[2] {
            bsv!(m[k] == m0[k], "no byte outside the breakpoints differs from the pristine image");
        }
        k += 1;
    }
    kani::cover!(o[0] < 8 && o[1] < 8 && o[2] < 8 && e[0] && e[1] && !e[2] && t == 2, "arm a third breakpoint inside a word that already holds two");
    kani::cover!(!e[0] && !e[1] && e[2] && t == 2, "lift the last one");
    kani::cover!(true, "BSV-END");
    std::mem::forget(r);
    std::mem::forget(b);
}
