//! inject: src/debugger/call/mod.rs
//! t7: src/debugger/debugee/dwarf/type.rs, src/debugger/variable/value/parser.rs
//! t7-path: src/debugger/variable/value/serialize.rs
//! t7-keep-std: src/debugger/debugee/dwarf/type.rs: ^pub type TypeCache
//! requires: type_mk
//
// C16 — `call f a1..an` passes exactly those arguments: conversion of a literal to the 8 bytes of
// its System V integer-class register, by the parameter's DWARF base type.
use super::*;
use crate::debugger::debugee::dwarf::NamespaceHierarchy;
use crate::debugger::debugee::dwarf::r#type::ScalarType;
use crate::debugger::debugee::dwarf::r#type::bsv_type_mk::single_type;
use crate::debugger::debugee::dwarf::unit::DieAddr;

macro_rules! bsv {
    ($c:expr, $m:literal) => {
        assert!($c, concat!("BSV: ", $m))
    };
}

fn scalar_param(encoding: gimli::DwAte, size: u64) -> ComplexType {
    single_type(
        DieAddr::Unit(gimli::UnitOffset(0x10)),
        TypeDeclaration::Scalar(ScalarType {
            namespaces: NamespaceHierarchy::default(),
            name: None,
            byte_size: Some(size),
            encoding: Some(encoding),
        }),
    )
}
fn no_backtrace() -> std::backtrace::Backtrace {
    std::backtrace::Backtrace::disabled()
}
/// cut: the type name used only in error messages (ComplexType::identity recurses through the type graph)
fn stub_identity(_this: &ComplexType, _typ: crate::debugger::debugee::dwarf::r#type::TypeId) -> crate::debugger::debugee::dwarf::r#type::TypeIdentity {
    crate::debugger::debugee::dwarf::r#type::TypeIdentity::unknown()
}
fn empty_string(_args: std::fmt::Arguments<'_>) -> String {
    String::new()
}

/// the callee reads its parameter from the low `size` bytes of the register (psABI 3.2.3); the literal
/// the user typed must be what it reads there, at the parameter's width and signedness
macro_rules! int_arg {
    ($val:expr, $enc:expr, $size:literal, $t:ty) => {{
        let ty = scalar_param($enc, $size);
        let lit = Literal::Int($val);
        let r = liter_to_arg_bin_repr(0, &lit, &ty);
        match &r {
            Ok((reg, RegType::General)) => {
                bsv!((*reg as $t) == ($val as $t), "the low bytes of the argument register hold the literal at the parameter's width");
                // a value the parameter type cannot hold is not silently another number
            }
            _ => bsv!(false, "an integer literal converts to an integer parameter"),
        }
        std::mem::forget(r);
        std::mem::forget(lit);
        std::mem::forget(ty);
    }};
}

//@ harness: c16_literal_to_register_signed
//@ property: C16
//@ obligation: H-C16-a
//@ tier: quick
//@ encodes: liter_to_arg_bin_repr (Int literal to signed parameters), ComplexType::root
//@ symbolic: the integer literal (any i64); parameter base types i8, i16, i32, i64, signed char (instances, one call each)
//@ bounds: loop-free; unwind 4
//@ oracle: System V AMD64 psABI 3.2.3: an INTEGER-class argument travels in one general register and the callee reads its low `size` bytes: those bytes equal the literal truncated to the parameter's width (two's complement)
//@ stubs: HashMap -> association list (T7, type.rs: ComplexType.types); Backtrace::capture; alloc::fmt::format -> empty and ComplexType::identity -> unknown (both only build error messages)
//@ outside: float, string, enum and aggregate arguments (refused by the debugger), more than six arguments (c16_arity), that f runs once (CPU)
//@ timeout: 1500
//@ mem_gb: 20
#[kani::proof]
#[kani::stub(std::backtrace::Backtrace::capture, no_backtrace)]
#[kani::stub(alloc::fmt::format, empty_string)]
#[kani::stub(ComplexType::identity, stub_identity)]
#[kani::unwind(4)]
fn c16_literal_to_register_signed() {
    let v: i64 = kani::any();
    int_arg!(v, gimli::DW_ATE_signed, 1, i8);
    int_arg!(v, gimli::DW_ATE_signed, 2, i16);
    int_arg!(v, gimli::DW_ATE_signed, 4, i32);
    int_arg!(v, gimli::DW_ATE_signed, 8, i64);
    int_arg!(v, gimli::DW_ATE_signed_char, 1, i8);
    kani::cover!(v < 0, "negative literal");
    kani::cover!(v > u32::MAX as i64, "literal wider than 32 bits");
    kani::cover!(true, "BSV-END");
}

//@ harness: c16_literal_to_register_unsigned
//@ property: C16
//@ obligation: H-C16-a
//@ tier: quick
//@ encodes: liter_to_arg_bin_repr (Int literal to unsigned parameters)
//@ symbolic: the integer literal (any i64); parameter base types u8, u16, u32, u64, unsigned char (instances)
//@ bounds: as c16_literal_to_register_signed
//@ oracle: as c16_literal_to_register_signed (truncation to the unsigned width)
//@ stubs: as c16_literal_to_register_signed
//@ timeout: 1500
//@ mem_gb: 20
#[kani::proof]
#[kani::stub(std::backtrace::Backtrace::capture, no_backtrace)]
#[kani::stub(alloc::fmt::format, empty_string)]
#[kani::stub(ComplexType::identity, stub_identity)]
#[kani::unwind(4)]
fn c16_literal_to_register_unsigned() {
    let v: i64 = kani::any();
    int_arg!(v, gimli::DW_ATE_unsigned, 1, u8);
    int_arg!(v, gimli::DW_ATE_unsigned, 2, u16);
    int_arg!(v, gimli::DW_ATE_unsigned, 4, u32);
    int_arg!(v, gimli::DW_ATE_unsigned, 8, u64);
    int_arg!(v, gimli::DW_ATE_unsigned_char, 1, u8);
    kani::cover!(v < 0, "negative literal to an unsigned parameter");
    kani::cover!(true, "BSV-END");
}

//@ harness: c16_literal_kind_mismatch
//@ property: C16
//@ obligation: H-C16-a
//@ tier: quick
//@ encodes: liter_to_arg_bin_repr (Bool and Address literals; literal kind against parameter kind)
//@ symbolic: the bool literal, the address literal (any usize), the integer literal (any i64)
//@ bounds: loop-free; 6 calls
//@ oracle: bool is passed as 0/1, an address unchanged; a literal of the wrong kind for the parameter (integer to bool or pointer, bool or address to integer) and an integer parameter of unsupported size are errors, never a register value: a call that cannot be made reports an error
//@ stubs: as c16_literal_to_register_signed
//@ timeout: 1500
//@ mem_gb: 20
#[kani::proof]
#[kani::stub(std::backtrace::Backtrace::capture, no_backtrace)]
#[kani::stub(alloc::fmt::format, empty_string)]
#[kani::stub(ComplexType::identity, stub_identity)]
#[kani::unwind(4)]
fn c16_literal_kind_mismatch() {
    let v: i64 = kani::any();
    let b: bool = kani::any();
    let ty = scalar_param(gimli::DW_ATE_boolean, 1);
    let lit = Literal::Bool(b);
    let r = liter_to_arg_bin_repr(1, &lit, &ty);
    bsv!(matches!(r, Ok((reg, RegType::General)) if reg == b as u64), "a bool argument is 0 or 1");
    std::mem::forget((r, lit));
    let lit = Literal::Int(v);
    let r = liter_to_arg_bin_repr(1, &lit, &ty);
    bsv!(r.is_err(), "an integer literal is refused for a bool parameter");
    std::mem::forget((r, lit, ty));
    let ty = scalar_param(gimli::DW_ATE_signed, 4);
    let lit = Literal::Bool(b);
    let r = liter_to_arg_bin_repr(2, &lit, &ty);
    bsv!(r.is_err(), "a bool literal is refused for an integer parameter");
    std::mem::forget((r, lit));
    let lit = Literal::Address(kani::any());
    let r = liter_to_arg_bin_repr(2, &lit, &ty);
    bsv!(r.is_err(), "an address literal is refused for an integer parameter");
    std::mem::forget((r, lit, ty));
    let ty = scalar_param(gimli::DW_ATE_signed, 3);
    let lit = Literal::Int(v);
    let r = liter_to_arg_bin_repr(3, &lit, &ty);
    bsv!(r.is_err(), "an integer parameter of unsupported size is refused");
    std::mem::forget((r, lit, ty));
    let a: usize = kani::any();
    let ty = single_type(
        DieAddr::Unit(gimli::UnitOffset(0x20)),
        TypeDeclaration::Pointer { namespaces: NamespaceHierarchy::default(), name: None, target_type: None },
    );
    let lit = Literal::Address(a);
    let r = liter_to_arg_bin_repr(4, &lit, &ty);
    bsv!(matches!(r, Ok((reg, RegType::General)) if reg == a as u64), "an address is passed unchanged");
    std::mem::forget((r, lit));
    let lit = Literal::Int(v);
    let r = liter_to_arg_bin_repr(4, &lit, &ty);
    bsv!(r.is_err(), "an integer literal is refused for a pointer parameter");
    std::mem::forget((r, lit, ty));
    kani::cover!(b, "true");
    kani::cover!(true, "BSV-END");
}
