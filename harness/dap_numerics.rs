//! inject: src/dap/yadap/session/mod.rs
//! t7: src/dap/yadap/session/mod.rs, src/dap/yadap/session/breakpoint.rs, src/dap/yadap/session/control.rs, src/dap/yadap/session/other.rs, src/dap/yadap/session/frame.rs
//
// C15 / C08 — numbers typed by the DAP client that become addresses and frame selectors:
// memoryReference (+ offset) of readMemory / writeMemory / disassemble, and frameId.
use super::*;

macro_rules! bsv {
    ($c:expr, $m:literal) => {
        assert!($c, concat!("BSV: ", $m))
    };
}

fn no_backtrace() -> std::backtrace::Backtrace {
    std::backtrace::Backtrace::disabled()
}
fn empty_string(_a: std::fmt::Arguments<'_>) -> String {
    String::new()
}

static mut BASE: usize = 0;
static mut BASE_OK: bool = true;
fn stub_parse_reference(_reference: &str) -> anyhow::Result<usize> {
    if unsafe { BASE_OK } { Ok(unsafe { BASE }) } else { Err(anyhow!("bad")) }
}

//@ harness: c15_memory_reference_offset
//@ property: C15
//@ obligation: H-C15-e
//@ tier: quick
//@ encodes: parse_memory_reference_with_offset (the address arithmetic of readMemory / writeMemory / disassemble)
//@ symbolic: the parsed base address (full usize), the request's offset (full i64), whether the reference text parsed at all
//@ bounds: loop-free
//@ oracle: an accepted address is base + offset exactly (mathematical integers); a sum inside [0, i64::MAX] from a base inside it is accepted; a sum that overflows, a negative sum and unparsable text are error responses, never a wrapped address and never a panic (addresses above i64::MAX may be refused, as the current code does, or accepted)
//@ stubs: parse_memory_reference -> arbitrary usize / error (its text parsing is decided separately in c15_memory_reference_text_*); Backtrace::capture -> disabled; alloc::fmt::format -> empty (error messages only)
//@ timeout: 600
#[kani::proof]
#[kani::stub(parse_memory_reference, stub_parse_reference)]
#[kani::stub(std::backtrace::Backtrace::capture, no_backtrace)]
#[kani::stub(alloc::fmt::format, empty_string)]
fn c15_memory_reference_offset() {
    let base: usize = kani::any();
    let off: i64 = kani::any();
    let ok: bool = kani::any();
    unsafe {
        BASE = base;
        BASE_OK = ok;
    }
    let r = parse_memory_reference_with_offset("x", off);
    let sum = base as i128 + off as i128;
    // addresses in the upper half of the address space may be accepted or refused (the current code refuses them);
    // what must never happen is a wrapped or negative sum being used as the address
    let plainly_ok = ok && base <= i64::MAX as usize && sum >= 0 && sum <= i64::MAX as i128;
    match &r {
        Ok(a) => {
            bsv!(ok, "an unparsable reference is refused");
            bsv!(*a as i128 == sum, "the access address is memoryReference + offset exactly (no wrap, no negative sum)");
        }
        Err(_) => bsv!(!plainly_ok, "a representable memoryReference + offset is accepted"),
    }
    kani::cover!(r.is_ok() && off < 0, "negative offset accepted");
    kani::cover!(r.is_err() && ok && base <= i64::MAX as usize && off > 0, "overflowing sum refused");
    kani::cover!(r.is_err() && ok && off < 0 && base <= i64::MAX as usize, "negative sum refused");
    std::mem::forget(r);
    kani::cover!(true, "BSV-END");
}

fn hexval(c: u8) -> Option<u64> {
    match c {
        b'0'..=b'9' => Some((c - b'0') as u64),
        b'a'..=b'f' => Some((c - b'a' + 10) as u64),
        b'A'..=b'F' => Some((c - b'A' + 10) as u64),
        _ => None,
    }
}

fn reference_text<const N: usize>() {
    // "0x" + N symbolic characters, or N symbolic characters alone (decimal form), chosen symbolically
    let hex: bool = kani::any();
    let d: [u8; N] = kani::any();
    let mut i = 0;
    while i < N {
        kani::assume(d[i] < 0x80 && d[i] != b' ' && !(9..=13).contains(&d[i]));
        i += 1;
    }
    let mut buf = [0u8; 8];
    let mut n = 0;
    if hex {
        buf[0] = b'0';
        buf[1] = b'x';
        n = 2;
    }
    let mut i = 0;
    while i < N {
        buf[n + i] = d[i];
        i += 1;
    }
    let total = n + N;
    let s = unsafe { std::str::from_utf8_unchecked(&buf[..total]) };
    let r = parse_memory_reference(s);
    // reference reading: all characters must be digits of the radix; a leading '+' is what std accepts
    let radix: u64 = if hex { 16 } else { 10 };
    let mut want: Option<u64> = Some(0);
    let mut i = 0;
    let mut start = 0;
    if N > 1 && d[0] == b'+' {
        start = 1;
    }
    i = start;
    while i < N {
        want = match (want, hexval(d[i])) {
            (Some(acc), Some(v)) if v < radix => Some(acc * radix + v),
            _ => None,
        };
        i += 1;
    }
    // "0x" + "x.." is not re-stripped: plain decimal text starting with "0x" cannot occur here (hex flag covers it)
    if !hex && N >= 2 && d[0] == b'0' && d[1] == b'x' {
        // decimal form that happens to spell the hex prefix: the code parses the rest as hex
        let mut w: Option<u64> = Some(0);
        let mut j = 2;
        if N > 3 && d[2] == b'+' {
            j = 3;
        }
        if N == 2 {
            w = None;
        }
        while j < N {
            w = match (w, hexval(d[j])) {
                (Some(acc), Some(v)) => Some(acc * 16 + v),
                _ => None,
            };
            j += 1;
        }
        want = w;
    }
    match (&r, want) {
        (Ok(a), Some(w)) => bsv!(*a as u64 == w, "the reference denotes the number its text spells (hex after 0x, decimal otherwise)"),
        (Ok(_), None) => bsv!(false, "text that is not a number of the radix is refused"),
        (Err(_), Some(_)) => bsv!(false, "a well-formed reference is accepted"),
        (Err(_), None) => {}
    }
    kani::cover!(r.is_ok() && hex, "hex reference accepted");
    kani::cover!(r.is_ok() && !hex, "decimal reference accepted");
    kani::cover!(r.is_err(), "malformed reference refused");
    std::mem::forget(r);
    kani::cover!(true, "BSV-END");
}

//@ harness: c15_memory_reference_text_2
//@ property: C15
//@ obligation: H-C15-e
//@ tier: quick
//@ encodes: parse_memory_reference (str::trim, strip_prefix, usize::from_str_radix, str::parse::<usize>)
//@ symbolic: two ASCII characters (any non-whitespace 7-bit value), with or without a leading "0x"
//@ bounds: 2 symbolic characters (instance); loops bounded at 6
//@ oracle: Ok(n) iff the characters are digits of the radix (hex after 0x, decimal otherwise; one leading '+' as std's integer parser accepts), and n is the number they spell
//@ stubs: Backtrace::capture -> disabled; alloc::fmt::format -> empty
//@ outside: surrounding whitespace (str::trim walks Unicode tables), longer references, values near usize::MAX
//@ unwindset: reference_text=6
//@ timeout: 1800
#[kani::proof]
#[kani::stub(std::backtrace::Backtrace::capture, no_backtrace)]
#[kani::stub(alloc::fmt::format, empty_string)]
#[kani::unwind(6)]
fn c15_memory_reference_text_2() {
    reference_text::<2>();
}

//@ harness: c08_frame_id_decode
//@ property: C08
//@ obligation: C08 DAP numerics
//@ tier: quick
//@ encodes: DebugSession::decode_frame_id
//@ symbolic: the frameId of a scopes / evaluate / setVariable / completions / restartFrame request (full i64); a thread id and a frame number
//@ bounds: loop-free
//@ oracle: ids are issued by stackTrace as (threadId << 16) | frameNo (frame.rs); decoding an issued id returns exactly that thread and that frame for every thread id below 2^47 and every frame number below 2^16; decoding any other i64 (negative, huge) does not panic
//@ timeout: 300
#[kani::proof]
fn c08_frame_id_decode() {
    let tid: i64 = kani::any();
    let frame: i64 = kani::any();
    kani::assume(tid >= 0 && tid < (1i64 << 47));
    kani::assume(frame >= 0 && frame < (1i64 << 16));
    let id = (tid << 16) | frame;
    let (t, f) = DebugSession::decode_frame_id(id);
    bsv!(t == tid, "an issued frameId decodes to the thread it was issued for");
    bsv!(f as i64 == frame, "an issued frameId decodes to the frame it was issued for");
    let any: i64 = kani::any();
    let (t2, f2) = DebugSession::decode_frame_id(any);
    bsv!(f2 < 65536, "the frame number of any client-supplied id is below 2^16");
    bsv!(t2 == any >> 16, "the thread id of any client-supplied id is its upper part");
    kani::cover!(any < 0, "negative frameId");
    kani::cover!(frame == 65535 && tid == 4_194_304, "deepest frame of a high thread id");
    kani::cover!(true, "BSV-END");
}
