//! inject: src/debugger/address.rs
//
// C18 / C19 / C05 — address arithmetic kernels: Global <-> Relocated conversion, half-open range
// membership (lexical scopes, function ranges), CFA +- offset.
use super::*;

macro_rules! bsv {
    ($c:expr, $m:literal) => {
        assert!($c, concat!("BSV: ", $m))
    };
}

//@ harness: c18_relocation_roundtrip
//@ property: C18
//@ obligation: H-C18-b
//@ tier: quick
//@ encodes: RelocatedAddress::remove_vas_region_offset, GlobalAddress::relocate, From<usize>/Into<usize> for both address kinds
//@ symbolic: the runtime address (usize), the mapping offset (usize)
//@ bounds: loop-free
//@ oracle: global = runtime - offset exactly; relocate(global, offset) = runtime (the conversion is a bijection for every load bias, PIE or not); two objects loaded at different offsets map the same global address to different runtime addresses
//@ assumes: the address lies inside the mapping it is converted with (addr >= offset), as find_range guarantees; no wrap at the top of the address space
//@ outside: which offset is chosen for an address (/proc/<pid>/maps, registry.rs update_mappings)
//@ timeout: 300
#[kani::proof]
fn c18_relocation_roundtrip() {
    let a: usize = kani::any();
    let o: usize = kani::any();
    kani::assume(a >= o);
    let g = RelocatedAddress::from(a).remove_vas_region_offset(o);
    bsv!(usize::from(g) == a - o, "global address = runtime address - mapping offset");
    let back = g.relocate(o);
    bsv!(usize::from(back) == a, "relocate undoes remove_vas_region_offset");
    bsv!(back == RelocatedAddress::from(a), "round trip is the identity on RelocatedAddress");
    let o2: usize = kani::any();
    kani::assume(o2 != o);
    kani::assume(usize::from(g).checked_add(o2).is_some());
    bsv!(g.relocate(o2) != back, "a different load offset gives a different runtime address");
    kani::cover!(o == 0, "non-PIE: zero offset");
    kani::cover!(o > 0x5555_0000_0000 && a > o, "PIE-like offset");
    kani::cover!(true, "BSV-END");
}

//@ harness: c19_scope_membership
//@ property: C19
//@ obligation: H-C19-a
//@ tier: quick
//@ encodes: GlobalAddress::{in_range, in_ranges}
//@ symbolic: pc, three ranges (begin, end) with arbitrary u64 bounds (also empty and inverted ones)
//@ bounds: 3 ranges (instance), unwind 5
//@ oracle: a scope [begin, end) contains pc iff begin <= pc < end (DWARF 5 2.17.3: the end address is the first address past the scope); in_ranges is the disjunction
//@ outside: which DIEs are walked and in which order (local_variables), location lists
//@ timeout: 300
#[kani::proof]
#[kani::unwind(5)]
fn c19_scope_membership() {
    let pc: u64 = kani::any();
    let b: [u64; 3] = kani::any();
    let e: [u64; 3] = kani::any();
    let ranges = [
        Range { begin: b[0], end: e[0] },
        Range { begin: b[1], end: e[1] },
        Range { begin: b[2], end: e[2] },
    ];
    let g = GlobalAddress::from(pc);
    let mut any = false;
    let mut i = 0;
    while i < 3 {
        let want = b[i] <= pc && pc < e[i];
        bsv!(g.in_range(&ranges[i]) == want, "scope range is half-open [begin, end)");
        any |= want;
        i += 1;
    }
    bsv!(g.in_ranges(&ranges) == any, "in_ranges is the disjunction over the ranges");
    bsv!(!g.in_ranges(&ranges[..0]), "no ranges, not in scope");
    kani::cover!(pc == e[0] && b[0] < e[0], "pc is the first address past a scope (sibling block starts here)");
    kani::cover!(pc == b[2] && b[2] < e[2] && !(b[0] <= pc && pc < e[0]) && !(b[1] <= pc && pc < e[1]), "only the last range contains pc");
    kani::cover!(true, "BSV-END");
}

//@ harness: c05_cfa_offset
//@ property: C05
//@ obligation: H-C05-b
//@ tier: quick
//@ encodes: RelocatedAddress::offset
//@ symbolic: the CFA (usize), the rule offset (isize, full range incl. isize::MIN)
//@ bounds: loop-free
//@ oracle: two's-complement cfa + offset (register rule Offset(N): value saved at CFA+N)
//@ assumes: the sum stays inside the address space (a wrapped sum is a dev-profile overflow panic; recorded, not claimed)
//@ timeout: 300
#[kani::proof]
fn c05_cfa_offset() {
    let cfa: usize = kani::any();
    let off: isize = kani::any();
    let want = (cfa as i128) + (off as i128);
    kani::assume(want >= 0 && want <= usize::MAX as i128);
    let got = RelocatedAddress::from(cfa).offset(off);
    bsv!(usize::from(got) as i128 == want, "CFA + offset, signed");
    bsv!(got.as_usize() == cfa.wrapping_add(off as usize), "same as two's-complement addition");
    bsv!(got.as_u64() == got.as_usize() as u64, "u64 view agrees");
    kani::cover!(off == -8, "return address slot at CFA-8");
    kani::cover!(off == isize::MIN, "most negative offset");
    kani::cover!(true, "BSV-END");
}
