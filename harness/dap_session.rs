//! inject: src/dap/yadap/session/mod.rs
//! t7: src/dap/yadap/session/mod.rs, src/dap/yadap/session/breakpoint.rs, src/dap/yadap/session/control.rs, src/dap/yadap/session/other.rs, src/dap/yadap/session/frame.rs
//
// C12 — sequence numbers 1,2,3,... in wire order, responses echo request_seq / command, nothing is
// sent after `terminated`.  serde_json is cut at its boundary (T9): protocol::send_event and
// serde_json::to_value::<DapResponse> are replaced by recorders of (seq, kind, request_seq, ...);
// what runs is the session's own sequencing logic.
// Interleaving with the stdout/stderr forwarder threads is decided by sequentialisation: the only
// shared state is `server_seq` and the transport behind `io: Arc<Mutex<_>>`; wire writes happen only
// under that lock, so Mutex::lock is the only context-switch point that matters.  Mutex::lock is
// stubbed so that, before the lock is granted, an adversary may perform complete foreign sends.
use super::*;
use std::sync::atomic::Ordering;
use std::sync::{LockResult, MutexGuard, TryLockError};

macro_rules! bsv {
    ($c:expr, $m:literal) => {
        assert!($c, concat!("BSV: ", $m))
    };
}

struct NullTransport;
impl DapTransport for NullTransport {
    fn read_message(&mut self) -> anyhow::Result<Value> {
        Err(anyhow!("none"))
    }
    fn write_message(&mut self, _message: &Value) -> anyhow::Result<()> {
        Ok(())
    }
}
fn fixed_random_state() -> std::hash::RandomState {
    unsafe { std::mem::transmute::<(u64, u64), std::hash::RandomState>((1u64, 2u64)) }
}
fn no_backtrace() -> std::backtrace::Backtrace {
    std::backtrace::Backtrace::disabled()
}

/// what went onto the wire, in wire order
#[derive(Clone, Copy)]
struct Msg {
    seq: i64,
    /// 0 = event, 1 = response, 2 = foreign (forwarder) event
    kind: u8,
    request_seq: i64,
    success: bool,
    cmd_len: usize,
    cmd0: u8,
    /// event code: 1 exited, 2 terminated, 3 output, 4 stopped, 5 thread, 6 module/loadedSource, 9 other
    ev: u8,
}
const NOMSG: Msg = Msg { seq: 0, kind: 0, request_seq: 0, success: false, cmd_len: 0, cmd0: 0, ev: 0 };
const WMAX: usize = 8;
static mut WIRE: [Msg; WMAX] = [NOMSG; WMAX];
static mut WIRE_N: usize = 0;
static mut ADV_SEQ: Option<Arc<AtomicI64>> = None;
static mut ADV_BUDGET: u8 = 0;
static mut ADV_SENT: u8 = 0;

fn rec(m: Msg) {
    unsafe {
        if WIRE_N < WMAX {
            WIRE[WIRE_N] = m;
        }
        WIRE_N += 1;
    }
}
fn ev_code(name: &str) -> u8 {
    if name == "exited" {
        1
    } else if name == "terminated" {
        2
    } else if name == "output" {
        3
    } else if name == "stopped" {
        4
    } else if name == "thread" {
        5
    } else if name == "module" || name == "loadedSource" {
        6
    } else {
        9
    }
}
fn stub_send_event(seq: i64, _io: &mut dyn DapTransport, name: &'static str, body: Option<Value>) -> anyhow::Result<()> {
    rec(Msg { seq, kind: 0, ev: ev_code(name), ..NOMSG });
    std::mem::forget(body);
    Ok(())
}
/// serde_json::to_value::<DapResponse> (the only instantiation on the paths of these harnesses)
fn stub_to_value<T: Serialize>(value: T) -> Result<Value, serde_json::Error> {
    if std::mem::size_of::<T>() == std::mem::size_of::<DapResponse>() {
        let r = unsafe { &*(&value as *const T as *const DapResponse) };
        let b = r.command.as_bytes();
        rec(Msg {
            seq: r.seq,
            kind: 1,
            request_seq: r.request_seq,
            success: r.success,
            cmd_len: b.len(),
            cmd0: if b.is_empty() { 0 } else { b[0] },
            ev: 0,
        });
    }
    std::mem::forget(value);
    Ok(Value::Null)
}
/// a complete foreign send, as the stdout/stderr forwarders do it on the fixed tree:
/// number taken from the shared counter and written while the transport lock is held
fn adversary_step() {
    unsafe {
        if ADV_BUDGET > 0 && kani::any() {
            ADV_BUDGET -= 1;
            ADV_SENT += 1;
            let ctr = (*std::ptr::addr_of!(ADV_SEQ)).as_ref().unwrap();
            let s = ctr.fetch_add(1, Ordering::Relaxed);
            rec(Msg { seq: s, kind: 2, ev: 3, ..NOMSG });
        }
    }
}
fn stub_lock<T: ?Sized>(this: &Mutex<T>) -> LockResult<MutexGuard<'_, T>> {
    // context switch point: other threads may run whole sends before we get the lock
    adversary_step();
    adversary_step();
    match this.try_lock() {
        Ok(g) => Ok(g),
        Err(TryLockError::Poisoned(p)) => Err(p),
        Err(TryLockError::WouldBlock) => panic!("single-threaded model: lock is free"),
    }
}
fn new_session() -> DebugSession {
    unsafe {
        WIRE = [NOMSG; WMAX];
        WIRE_N = 0;
        ADV_BUDGET = 0;
        ADV_SENT = 0;
    }
    let io: Arc<Mutex<dyn DapTransport>> = Arc::new(Mutex::new(NullTransport));
    DebugSession::new(io)
}
fn mk_req(seq: i64, cmd0: u8) -> DapRequest {
    let mut command = String::with_capacity(2);
    command.push(if cmd0 < 128 { cmd0 as char } else { 'z' });
    command.push('x');
    DapRequest { seq, r#type: String::new(), command, arguments: Value::Null }
}

/// one send of a symbolic kind; returns the kind (0 event, 1 success response, 2 error response)
fn one_send(s: &mut DebugSession, req: &DapRequest) -> u8 {
    let k: u8 = kani::any();
    kani::assume(k < 3);
    let r = match k {
        0 => s.send_event("stopped"),
        1 => s.send_success(req),
        _ => s.send_err(req, "e"),
    };
    bsv!(r.is_ok(), "send succeeds on a working transport");
    std::mem::forget(r);
    k
}

//@ harness: c12_seq_and_echo
//@ property: C12
//@ obligation: H-C12-a
//@ tier: quick
//@ encodes: DebugSession::{new, next_seq, send_event, send_event_raw, send_response_raw, send_success, send_err}
//@ symbolic: kinds of 3 consecutive sends (event / success response / error response), request seq (i64) and first command byte of the two requests answered
//@ bounds: 3 sends (instance); single thread; unwind 4
//@ oracle: the messages appear on the wire in call order with seq 1, 2, 3; a response carries the request's seq as request_seq, its command, and success = false exactly for errors
//@ stubs: protocol::send_event -> recorder; serde_json::to_value::<DapResponse> -> recorder (serialisation cut at its boundary); RandomState::new -> fixed; Backtrace::capture -> disabled
//@ outside: JSON shape of the messages, request handling
//@ unwindset: memcmp=14
//@ timeout: 1200
#[kani::proof]
#[kani::stub(std::backtrace::Backtrace::capture, no_backtrace)]
#[kani::stub(std::hash::RandomState::new, fixed_random_state)]
#[kani::stub(crate::dap::yadap::protocol::send_event, stub_send_event)]
#[kani::stub(serde_json::to_value, stub_to_value)]
#[kani::unwind(4)]
fn c12_seq_and_echo() {
    let mut s = new_session();
    let rs: [i64; 2] = kani::any();
    let c0: [u8; 2] = kani::any();
    kani::assume(c0[0] < 128 && c0[1] < 128);
    let q1 = mk_req(rs[0], c0[0]);
    let q2 = mk_req(rs[1], c0[1]);
    let k1 = one_send(&mut s, &q1);
    let k2 = one_send(&mut s, &q2);
    let k3 = one_send(&mut s, &q1);
    let (n, w) = unsafe { (WIRE_N, WIRE) };
    bsv!(n == 3, "exactly one message per send");
    bsv!(w[0].seq == 1 && w[1].seq == 2 && w[2].seq == 3, "sequence numbers 1,2,3 in wire order");
    let ks = [k1, k2, k3];
    let qs = [(rs[0], c0[0]), (rs[1], c0[1]), (rs[0], c0[0])];
    let mut i = 0;
    while i < 3 {
        if ks[i] == 0 {
            bsv!(w[i].kind == 0 && w[i].ev == 4, "an event goes out as that event");
        } else {
            bsv!(w[i].kind == 1, "a response goes out as a response");
            bsv!(w[i].request_seq == qs[i].0, "request_seq echoes the request's seq");
            bsv!(w[i].cmd_len == 2 && w[i].cmd0 == qs[i].1, "command echoes the request's command");
            bsv!(w[i].success == (ks[i] == 1), "success is false exactly for error responses");
        }
        i += 1;
    }
    kani::cover!(k1 == 1 && k2 == 0 && k3 == 2, "response, event, error response");
    kani::cover!(rs[0] < 0, "negative request seq is echoed as is");
    kani::cover!(true, "BSV-END");
    std::mem::forget((q1, q2));
    std::mem::forget(s);
}

//@ harness: c12_cancelled_request_answered
//@ property: C12
//@ obligation: H-C12-a
//@ tier: quick
//@ encodes: DebugSession::{consume_cancellation, send_cancelled, send_response_raw}
//@ symbolic: the request id named by an earlier `cancel` (i64), the seq of the request now being handled (i64)
//@ bounds: one pending cancellation, one request, handled twice in a row; no progress id (the stackTrace / readMemory / evaluate / disassemble call sites)
//@ oracle: exactly one response per request: a request whose seq was cancelled is answered exactly once (success = false, request_seq and command echoed) and reported as cancelled to the caller; any other request is not answered here and not reported; the cancellation is consumed (asking again answers nothing)
//@ stubs: serde_json::to_value::<DapResponse> -> recorder; HashMap/HashSet -> association list (T7, session files)
//@ unwindset: memcmp=14
//@ timeout: 1200
#[kani::proof]
#[kani::stub(std::backtrace::Backtrace::capture, no_backtrace)]
#[kani::stub(std::hash::RandomState::new, fixed_random_state)]
#[kani::stub(crate::dap::yadap::protocol::send_event, stub_send_event)]
#[kani::stub(serde_json::to_value, stub_to_value)]
#[kani::unwind(4)]
fn c12_cancelled_request_answered() {
    let mut s = new_session();
    let cancelled: i64 = kani::any();
    let seq: i64 = kani::any();
    s.canceled_request_ids.insert(cancelled);
    let q = mk_req(seq, b'r');
    let r1 = s.consume_cancellation(&q, None);
    let (n1, w) = unsafe { (WIRE_N, WIRE) };
    let hit = seq == cancelled;
    bsv!(matches!(r1, Ok(c) if c == hit), "the caller is told whether the request was cancelled");
    if hit {
        bsv!(n1 == 1, "a cancelled request is answered exactly once, not silently dropped");
        bsv!(w[0].kind == 1 && w[0].request_seq == seq && !w[0].success && w[0].cmd0 == b'r', "the answer is an error response echoing request_seq and command");
        bsv!(w[0].seq == 1, "and carries the next sequence number");
    } else {
        bsv!(n1 == 0, "a request that was not cancelled is not answered here");
    }
    let r2 = s.consume_cancellation(&q, None);
    bsv!(matches!(r2, Ok(false)), "a cancellation is consumed by the request it names");
    bsv!(unsafe { WIRE_N } == n1, "nothing further is sent");
    kani::cover!(hit, "request was cancelled");
    kani::cover!(!hit, "another request");
    kani::cover!(true, "BSV-END");
    std::mem::forget(q);
    std::mem::forget((r1, r2));
    std::mem::forget(s);
}

// NOTE: the lifecycle latch of drain_events (H-C12-b) is not decided: the drained Vec<InternalEvent> is dropped at the end
// of drain_events and CBMC expands the drop glue of serde_json::Value (BTreeMap nodes, recursion) for it - 30 minutes
// without a result even with concrete event kinds (DESIGN 11.2).

fn wire_increasing() -> bool {
    let (n, w) = unsafe { (WIRE_N, WIRE) };
    let mut ok = true;
    let mut i = 1;
    while i < WMAX {
        if i < n && !(w[i - 1].seq < w[i].seq) {
            ok = false;
        }
        i += 1;
    }
    ok
}

//@ harness: c12_seq_under_lock_event
//@ property: C12
//@ obligation: H-C12-c
//@ tier: quick
//@ encodes: DebugSession::{send_event_raw, next_seq} against concurrent senders on the same counter and transport
//@ symbolic: adversary schedule: 0..2 complete foreign sends (forwarder threads) at each acquisition of the transport lock; 2 session sends
//@ bounds: 2 session sends, <= 2 foreign sends in total; context switches at lock acquisition only (sequentialisation)
//@ oracle: sequence numbers strictly increase in wire order, for every adversary schedule
//@ stubs: std::sync::Mutex::lock -> adversary then try_lock; protocol::send_event -> recorder; RandomState::new, Backtrace::capture
//@ assumes: every sender writes only while holding the transport lock; the forwarders take their number under that lock (true after fix 'allocate DAP sequence numbers under the transport lock'; their closures cannot be called from a harness)
//@ timeout: 1200
#[kani::proof]
#[kani::stub(std::backtrace::Backtrace::capture, no_backtrace)]
#[kani::stub(std::hash::RandomState::new, fixed_random_state)]
#[kani::stub(crate::dap::yadap::protocol::send_event, stub_send_event)]
#[kani::stub(std::sync::Mutex::lock, stub_lock)]
#[kani::unwind(9)]
fn c12_seq_under_lock_event() {
    let mut s = new_session();
    unsafe {
        ADV_SEQ = Some(s.server_seq.clone());
        ADV_BUDGET = 2;
    }
    let r1 = s.send_event_raw("stopped", None);
    let r2 = s.send_event_raw("continued", None);
    bsv!(r1.is_ok() && r2.is_ok(), "sends succeed");
    let n = unsafe { WIRE_N };
    bsv!(n == 2 + unsafe { ADV_SENT } as usize, "every send reaches the wire once");
    bsv!(wire_increasing(), "seq increases in wire order under concurrent output forwarding");
    kani::cover!(n == 4, "two foreign sends interleaved");
    kani::cover!(n == 3 && unsafe { WIRE[0].kind } == 2, "a foreign send got in first");
    kani::cover!(true, "BSV-END");
    std::mem::forget((r1, r2));
    std::mem::forget(s);
}

//@ harness: c12_seq_under_lock_response
//@ property: C12
//@ obligation: H-C12-c
//@ tier: quick
//@ encodes: DebugSession::{send_response_raw, send_success, send_event_raw, next_seq} against concurrent senders
//@ symbolic: adversary schedule (0..2 foreign sends at each lock acquisition); one response then one event
//@ bounds: 2 session sends, <= 2 foreign sends; context switches at lock acquisition only
//@ oracle: sequence numbers strictly increase in wire order; the response is recorded when it is written, i.e. its number must have been taken while the lock was held
//@ stubs: Mutex::lock -> adversary; DapTransport::write_message (NullTransport) records the response; serde_json::to_value::<DapResponse> -> carries seq in a Value::Number
//@ assumes: as c12_seq_under_lock_event
//@ timeout: 1200
#[kani::proof]
#[kani::stub(std::backtrace::Backtrace::capture, no_backtrace)]
#[kani::stub(std::hash::RandomState::new, fixed_random_state)]
#[kani::stub(crate::dap::yadap::protocol::send_event, stub_send_event)]
#[kani::stub(serde_json::to_value, stub_to_value_carry)]
#[kani::stub(std::sync::Mutex::lock, stub_lock)]
#[kani::unwind(9)]
fn c12_seq_under_lock_response() {
    unsafe {
        WIRE = [NOMSG; WMAX];
        WIRE_N = 0;
        ADV_SENT = 0;
    }
    let io: Arc<Mutex<dyn DapTransport>> = Arc::new(Mutex::new(RecTransport));
    let mut s = DebugSession::new(io);
    unsafe {
        ADV_SEQ = Some(s.server_seq.clone());
        ADV_BUDGET = 2;
    }
    let q = mk_req(kani::any(), b'c');
    let r1 = s.send_success(&q);
    let r2 = s.send_event_raw("continued", None);
    bsv!(r1.is_ok() && r2.is_ok(), "sends succeed");
    let n = unsafe { WIRE_N };
    bsv!(n == 2 + unsafe { ADV_SENT } as usize, "every send reaches the wire once");
    bsv!(wire_increasing(), "seq increases in wire order under concurrent output forwarding");
    kani::cover!(n == 4, "two foreign sends interleaved");
    kani::cover!(n == 3 && unsafe { WIRE[0].kind } == 2, "a foreign send got in before the response");
    kani::cover!(true, "BSV-END");
    std::mem::forget(q);
    std::mem::forget((r1, r2));
    std::mem::forget(s);
}

//@ harness: c12_seq_under_lock_3
//@ property: C12
//@ obligation: H-C12-c
//@ tier: thorough
//@ encodes: DebugSession::{send_event_raw, send_response_raw} against concurrent senders
//@ symbolic: adversary schedule: 0..2 complete foreign sends at each of three lock acquisitions, at most 4 in total; session sends event, response, event
//@ bounds: 3 session sends, <= 4 foreign sends; context switches at lock acquisition only
//@ oracle: sequence numbers strictly increase in wire order for every schedule
//@ stubs: as c12_seq_under_lock_response
//@ assumes: as c12_seq_under_lock_event
//@ timeout: 1800
#[kani::proof]
#[kani::stub(std::backtrace::Backtrace::capture, no_backtrace)]
#[kani::stub(std::hash::RandomState::new, fixed_random_state)]
#[kani::stub(crate::dap::yadap::protocol::send_event, stub_send_event)]
#[kani::stub(serde_json::to_value, stub_to_value_carry)]
#[kani::stub(std::sync::Mutex::lock, stub_lock)]
#[kani::unwind(9)]
fn c12_seq_under_lock_3() {
    unsafe {
        WIRE = [NOMSG; WMAX];
        WIRE_N = 0;
        ADV_SENT = 0;
    }
    let io: Arc<Mutex<dyn DapTransport>> = Arc::new(Mutex::new(RecTransport));
    let mut s = DebugSession::new(io);
    unsafe {
        ADV_SEQ = Some(s.server_seq.clone());
        ADV_BUDGET = 4;
    }
    let q = mk_req(kani::any(), b'c');
    let r1 = s.send_event_raw("stopped", None);
    let r2 = s.send_success(&q);
    let r3 = s.send_event_raw("continued", None);
    bsv!(r1.is_ok() && r2.is_ok() && r3.is_ok(), "sends succeed");
    let n = unsafe { WIRE_N };
    bsv!(n == 3 + unsafe { ADV_SENT } as usize, "every send reaches the wire once");
    bsv!(wire_increasing(), "seq increases in wire order under concurrent output forwarding");
    kani::cover!(n == 7, "four foreign sends interleaved");
    kani::cover!(true, "BSV-END");
    std::mem::forget(q);
    std::mem::forget((r1, r2, r3));
    std::mem::forget(s);
}

/// the response's number travels inside the Value so that it is recorded at write time
fn stub_to_value_carry<T: Serialize>(value: T) -> Result<Value, serde_json::Error> {
    let mut seq = -1i64;
    if std::mem::size_of::<T>() == std::mem::size_of::<DapResponse>() {
        let r = unsafe { &*(&value as *const T as *const DapResponse) };
        seq = r.seq;
    }
    std::mem::forget(value);
    Ok(Value::Number(seq.into()))
}
struct RecTransport;
impl DapTransport for RecTransport {
    fn read_message(&mut self) -> anyhow::Result<Value> {
        Err(anyhow!("none"))
    }
    fn write_message(&mut self, message: &Value) -> anyhow::Result<()> {
        let seq = match message {
            Value::Number(n) => n.as_i64().unwrap_or(-1),
            _ => -1,
        };
        rec(Msg { seq, kind: 1, ..NOMSG });
        Ok(())
    }
}
