//! inject: src/debugger/debugee/tracer.rs
//! t7: src/debugger/debugee/tracee.rs
//
// C10 — signal injection queue discipline of Tracer::resume, signal classification of
// apply_new_status.  C01 — breakpoint trap classification (pc rewind, match against the active set).
// Environment (T1): ptrace::cont records (pid, signal); waitpid plays a short script of wait
// statuses; getregs/setregs act on one static register file; getsiginfo returns a scripted si_code.
// Cut: Tracer::group_stop_interrupt is replaced by its effect on the bookkeeping ("every tracee is
// stopped afterwards"); it decides who is stopped, not who was resumed with which signal.
use super::*;
use nix::libc::{siginfo_t, user_regs_struct};
use std::path::PathBuf;

macro_rules! bsv {
    ($c:expr, $m:literal) => {
        assert!($c, concat!("BSV: ", $m))
    };
}

const P7: i32 = 7;
const P8: i32 = 8;
const P9: i32 = 9;

static mut REGS: Option<user_regs_struct> = None;
static mut SETREGS_N: usize = 0;
static mut SI_CODE: i32 = 0;
/// (pid, signal number or 0)
static mut CONT_LOG: [(i32, i32); 6] = [(0, 0); 6];
static mut CONT_N: usize = 0;
static mut GROUP_STOPS: usize = 0;
/// waitpid script: statuses handed out in order; afterwards the process exits
static mut WAIT_SCRIPT: [(i32, i32); 2] = [(0, 0); 2]; // (pid, signal) => Stopped(pid, signal); pid 0 = end
static mut WAIT_POS: usize = 0;

fn stub_getregs(_pid: Pid) -> nix::Result<user_regs_struct> {
    Ok(unsafe { REGS.unwrap() })
}
fn stub_setregs(_pid: Pid, regs: user_regs_struct) -> nix::Result<()> {
    unsafe {
        REGS = Some(regs);
        SETREGS_N += 1;
    }
    Ok(())
}
fn stub_getsiginfo(_pid: Pid) -> nix::Result<siginfo_t> {
    let mut si: siginfo_t = unsafe { std::mem::zeroed() };
    si.si_code = unsafe { SI_CODE };
    Ok(si)
}
fn stub_cont<T: Into<Option<Signal>>>(pid: Pid, sig: T) -> nix::Result<()> {
    let sig: Option<Signal> = sig.into();
    unsafe {
        if CONT_N < 6 {
            CONT_LOG[CONT_N] = (
                pid.as_raw(),
                match sig {
                    Some(s) => s as i32,
                    None => 0,
                },
            );
        }
        CONT_N += 1;
    }
    Ok(())
}
fn stub_waitpid<P: Into<Option<Pid>>>(_pid: P, _opts: Option<nix::sys::wait::WaitPidFlag>) -> nix::Result<WaitStatus> {
    unsafe {
        if WAIT_POS < 2 && WAIT_SCRIPT[WAIT_POS].0 != 0 {
            let (p, s) = WAIT_SCRIPT[WAIT_POS];
            WAIT_POS += 1;
            return Ok(WaitStatus::Stopped(Pid::from_raw(p), Signal::try_from(s).unwrap()));
        }
        WAIT_POS += 1;
    }
    // the whole process exits: ends Tracer::resume
    Ok(WaitStatus::Exited(Pid::from_raw(P7), 0))
}
/// effect of a completed group stop on the bookkeeping: every tracee is stopped
fn stub_group_stop(this: &mut Tracer, _tcx: TraceContext, _initiator: Pid) -> Result<(), Error> {
    unsafe { GROUP_STOPS += 1 };
    for p in [P7, P8, P9] {
        if let Some(t) = this.tracee_ctl.tracee_mut(Pid::from_raw(p)) {
            if !t.is_stopped() {
                t.set_stop(StopType::Interrupt);
            }
        }
    }
    Ok(())
}
fn fixed_random_state() -> std::hash::RandomState {
    unsafe { std::mem::transmute::<(u64, u64), std::hash::RandomState>((1u64, 2u64)) }
}
fn no_backtrace() -> std::backtrace::Backtrace {
    std::backtrace::Backtrace::disabled()
}

fn reset() {
    unsafe {
        CONT_LOG = [(0, 0); 6];
        CONT_N = 0;
        GROUP_STOPS = 0;
        WAIT_SCRIPT = [(0, 0); 2];
        WAIT_POS = 0;
        SETREGS_N = 0;
    }
}
/// any signal the kernel can report in a signal-delivery-stop, except SIGTRAP (own arm)
fn any_signal() -> Signal {
    let n: i32 = kani::any();
    kani::assume(n >= 1 && n <= 31 && n != nix::libc::SIGTRAP);
    match Signal::try_from(n) {
        Ok(s) => s,
        Err(_) => {
            kani::assume(false);
            unreachable!()
        }
    }
}
/// how often (pid, sig) was passed to PTRACE_CONT
fn count(pid: i32, sig: i32) -> usize {
    let (n, log) = unsafe { (CONT_N, CONT_LOG) };
    let mut c = 0;
    let mut i = 0;
    while i < 6 {
        if i < n && log[i] == (pid, sig) {
            c += 1;
        }
        i += 1;
    }
    c
}
/// how often pid was resumed at all
fn resumed(pid: i32) -> usize {
    let (n, log) = unsafe { (CONT_N, CONT_LOG) };
    let mut c = 0;
    let mut i = 0;
    while i < 6 {
        if i < n && log[i].0 == pid {
            c += 1;
        }
        i += 1;
    }
    c
}
/// how many resumes of pid carried any signal
fn injected(pid: i32) -> usize {
    let (n, log) = unsafe { (CONT_N, CONT_LOG) };
    let mut c = 0;
    let mut i = 0;
    while i < 6 {
        if i < n && log[i].0 == pid && log[i].1 != 0 {
            c += 1;
        }
        i += 1;
    }
    c
}

macro_rules! tracer_env {
    ($wps:ident, $tcx:ident, $tracer:ident) => {
        reset();
        let $wps = WatchpointRegistry::default();
        let bps: [&Breakpoint; 0] = [];
        let $tcx = TraceContext::new(&bps, &$wps);
        let mut $tracer = Tracer::new_external(Pid::from_raw(P7), &[Pid::from_raw(P7), Pid::from_raw(P8)]);
    };
}

/// queue with zero or one entry: one resume, then the process exits
fn queue_short(entry: Option<i32>) {
    tracer_env!(wps, tcx, tracer);
    let s = any_signal();
    if let Some(p) = entry {
        tracer.inject_signal_queue.push_back((Pid::from_raw(p), s));
    }
    let r = tracer.resume(tcx);
    bsv!(matches!(r, Ok(StopReason::DebugeeExit(0))), "resume runs until the next event");
    bsv!(resumed(P7) == 1 && resumed(P8) == 1, "every stopped thread is resumed exactly once");
    match entry {
        None => bsv!(injected(P7) == 0 && injected(P8) == 0, "nothing queued, nothing injected"),
        Some(p) => {
            let o = if p == P7 { P8 } else { P7 };
            bsv!(count(p, s as i32) == 1, "the queued signal is delivered to its thread exactly once");
            bsv!(injected(o) == 0, "no other thread receives a signal");
        }
    }
    bsv!(tracer.inject_signal_queue.is_empty(), "queue is empty afterwards");
    kani::cover!(s == Signal::SIGKILL, "SIGKILL");
    kani::cover!(s == Signal::SIGUSR1, "SIGUSR1");
    kani::cover!(true, "BSV-END");
    std::mem::forget(r);
    std::mem::forget(tracer);
    std::mem::forget(wps);
}

/// two queued entries: the resume delivers the first and re-stops; its post-state (one entry, all threads
/// stopped) is the pre-state of queue_short, which decides the following resume
fn queue_two(p1: i32, p2: i32) {
    tracer_env!(wps, tcx, tracer);
    let s1 = any_signal();
    let s2 = any_signal();
    tracer.inject_signal_queue.push_back((Pid::from_raw(p1), s1));
    tracer.inject_signal_queue.push_back((Pid::from_raw(p2), s2));
    let r = tracer.resume(tcx);
    bsv!(matches!(r, Ok(StopReason::SignalStop(p, s)) if p.as_raw() == p2 && s == s2), "with more signals pending the debuggee is stopped again and the next one is reported");
    bsv!(unsafe { GROUP_STOPS } >= 1, "the debuggee is group-stopped again");
    let first_delivered = count(p1, s1 as i32) == 1;
    if p1 != p2 {
        bsv!(first_delivered && resumed(p1) == 1, "first queued signal delivered to its thread exactly once");
        bsv!(resumed(p2) == 0, "a thread with a signal still queued is not resumed");
    } else {
        // both signals are for one thread
        bsv!(injected(p1) <= 1, "at most one signal is injected per resume");
        bsv!(count(p1, s2 as i32) == 0 || s1 == s2, "the second signal is not delivered ahead of the first");
    }
    let o = if p1 == P7 && p2 == P7 { P8 } else if p1 == P8 && p2 == P8 { P7 } else { 0 };
    if o != 0 {
        bsv!(injected(o) == 0, "the thread without queued signals receives none");
    }
    bsv!(tracer.inject_signal_queue.len() == 1, "one entry left in the queue");
    bsv!(matches!(tracer.inject_signal_queue.front(), Some((p, g)) if p.as_raw() == p2 && *g == s2), "the entry left is the second signal, for its thread");
    // post-state = pre-state of the one-entry harnesses (c10_queue_7 / c10_queue_8): both threads stopped, one entry
    bsv!(tracer.tracee_ctl.tracee_ensure(Pid::from_raw(P7)).is_stopped() && tracer.tracee_ctl.tracee_ensure(Pid::from_raw(P8)).is_stopped(), "every thread is stopped again when the stop is reported");
    kani::cover!(s1 != s2, "burst of two different signals");
    kani::cover!(s1 == s2, "same signal twice");
    kani::cover!(true, "BSV-END");
    // last, because it is the obligation that fails on the current tree for one-thread bursts (known finding):
    // an assertion that fails ends its path, so nothing may follow it
    bsv!(first_delivered, "the popped signal is delivered to its thread by that resume (two signals pending for one thread)");
    std::mem::forget(r);
    std::mem::forget(tracer);
    std::mem::forget(wps);
}

macro_rules! tracer_harness {
    ($name:ident, $unw:literal, $body:expr) => {
        #[kani::proof]
        #[kani::stub(Tracer::group_stop_interrupt, stub_group_stop)]
        #[kani::stub(nix::sys::ptrace::cont, stub_cont)]
        #[kani::stub(nix::sys::wait::waitpid, stub_waitpid)]
        #[kani::stub(nix::sys::ptrace::getregs, stub_getregs)]
        #[kani::stub(nix::sys::ptrace::setregs, stub_setregs)]
        #[kani::stub(nix::sys::ptrace::getsiginfo, stub_getsiginfo)]
        #[kani::stub(std::hash::RandomState::new, fixed_random_state)]
        #[kani::stub(std::backtrace::Backtrace::capture, no_backtrace)]
        #[kani::unwind($unw)]
        fn $name() {
            $body
        }
    };
}

//@ harness: c10_queue_empty
//@ property: C10
//@ obligation: H-C10-a
//@ tier: thorough
//@ encodes: Tracer::{resume, apply_new_status (Exited arm)}, TraceeCtl::{cont_stopped, new_external, remove}, Tracee::continue
//@ symbolic: nothing queued (instance); the exit is scripted
//@ bounds: 2 stopped threads (pids 7, 8), one resume; per-loop bounds (default 3: two threads, two queue entries; log scans 7; signal lists 8)
//@ oracle: every stopped thread is resumed exactly once, without a signal
//@ stubs: ptrace::cont -> log; waitpid -> script then Exited(7, 0); HashMap -> association list (T7, tracee.rs)
//@ unwindset: ?bsv_tracer::(count|resumed|injected)=7; ?slice_contains=8; ?Tracer::group_stop_interrupt=4
//@ timeout: 900
tracer_harness!(c10_queue_empty, 3, queue_short(None));

//@ harness: c10_queue_7
//@ property: C10
//@ obligation: H-C10-a
//@ tier: quick
//@ encodes: Tracer::resume, TraceeCtl::cont_stopped_ex, Tracee::continue
//@ symbolic: the queued signal (any of 1..31 except SIGTRAP); queue pattern (7) (instance: keys are concrete)
//@ bounds: 2 stopped threads, one resume; per-loop bounds (default 3: two threads, two queue entries; log scans 7; signal lists 8)
//@ oracle: conservation: the queued signal is passed to exactly one PTRACE_CONT of exactly its thread; the other thread is resumed without a signal; queue empty afterwards
//@ stubs: as c10_queue_empty
//@ unwindset: ?bsv_tracer::(count|resumed|injected)=7; ?slice_contains=8; ?Tracer::group_stop_interrupt=4
//@ timeout: 900
tracer_harness!(c10_queue_7, 3, queue_short(Some(P7)));

//@ harness: c10_queue_8
//@ property: C10
//@ obligation: H-C10-a
//@ tier: thorough
//@ encodes: Tracer::resume, TraceeCtl::cont_stopped_ex
//@ symbolic: the queued signal; queue pattern (8)
//@ bounds: as c10_queue_7
//@ oracle: as c10_queue_7
//@ stubs: as c10_queue_empty
//@ unwindset: ?bsv_tracer::(count|resumed|injected)=7; ?slice_contains=8; ?Tracer::group_stop_interrupt=4
//@ timeout: 900
tracer_harness!(c10_queue_8, 3, queue_short(Some(P8)));

//@ harness: c10_queue_78
//@ property: C10
//@ obligation: H-C10-a
//@ tier: quick
//@ encodes: Tracer::resume, TraceeCtl::cont_stopped_ex, Tracee::continue
//@ symbolic: both queued signals; queue pattern (7, 8)
//@ bounds: 2 threads, one resume from a two-entry queue (the following resume starts from the post-state asserted here, which is the pre-state of c10_queue_7 / c10_queue_8); per-loop bounds (default 3: two threads, two queue entries; log scans 7; signal lists 8)
//@ oracle: the first signal is delivered once to its thread, the thread with the still-queued signal is not resumed, SignalStop for the second is reported, a group stop is requested, and exactly the second entry stays queued with every thread stopped (so the next resume, decided by c10_queue_7/8, delivers it exactly once)
//@ stubs: as c10_queue_empty; cut: Tracer::group_stop_interrupt -> "every tracee is stopped afterwards"
//@ unwindset: ?bsv_tracer::(count|resumed|injected)=7; ?slice_contains=8; ?Tracer::group_stop_interrupt=4
//@ timeout: 1500
tracer_harness!(c10_queue_78, 3, queue_two(P7, P8));

//@ harness: c10_queue_87
//@ property: C10
//@ obligation: H-C10-a
//@ tier: thorough
//@ encodes: as c10_queue_78
//@ symbolic: both queued signals; queue pattern (8, 7)
//@ bounds: as c10_queue_78
//@ oracle: as c10_queue_78
//@ stubs: as c10_queue_78
//@ unwindset: ?bsv_tracer::(count|resumed|injected)=7; ?slice_contains=8; ?Tracer::group_stop_interrupt=4
//@ timeout: 1500
tracer_harness!(c10_queue_87, 3, queue_two(P8, P7));

//@ harness: c10_queue_88
//@ property: C10
//@ obligation: H-C10-a
//@ tier: quick
//@ encodes: as c10_queue_78
//@ symbolic: both queued signals; queue pattern (8, 8): two signals pending for one thread (a second signal arrived during a stepi taken while the first was still queued)
//@ bounds: as c10_queue_78
//@ oracle: as c10_queue_78, for one thread: the first signal is delivered by the first resume, the second by the second, never both at once and never the second before the first
//@ stubs: as c10_queue_78
//@ unwindset: ?bsv_tracer::(count|resumed|injected)=7; ?slice_contains=8; ?Tracer::group_stop_interrupt=4
//@ timeout: 1500
tracer_harness!(c10_queue_88, 3, queue_two(P8, P8));

//@ harness: c10_queue_77
//@ property: C10
//@ obligation: H-C10-a
//@ tier: thorough
//@ encodes: as c10_queue_78
//@ symbolic: both queued signals; queue pattern (7, 7)
//@ bounds: as c10_queue_78
//@ oracle: as c10_queue_88
//@ stubs: as c10_queue_78
//@ unwindset: ?bsv_tracer::(count|resumed|injected)=7; ?slice_contains=8; ?Tracer::group_stop_interrupt=4
//@ timeout: 1500
tracer_harness!(c10_queue_77, 3, queue_two(P7, P7));

/// three threads, each in a signal-stop with its own queued signal (a burst hitting a multi-threaded program)
fn queue_three() {
    reset();
    let wps = WatchpointRegistry::default();
    let bps: [&Breakpoint; 0] = [];
    let tcx = TraceContext::new(&bps, &wps);
    let mut tracer = Tracer::new_external(Pid::from_raw(P7), &[Pid::from_raw(P7), Pid::from_raw(P8), Pid::from_raw(P9)]);
    let s: [Signal; 3] = [any_signal(), any_signal(), any_signal()];
    tracer.inject_signal_queue.push_back((Pid::from_raw(P8), s[0]));
    tracer.inject_signal_queue.push_back((Pid::from_raw(P9), s[1]));
    tracer.inject_signal_queue.push_back((Pid::from_raw(P7), s[2]));
    let r = tracer.resume(tcx);
    bsv!(matches!(r, Ok(StopReason::SignalStop(p, g)) if p.as_raw() == P9 && g == s[1]), "the next pending signal is reported");
    bsv!(count(P8, s[0] as i32) == 1 && resumed(P8) == 1, "the first queued signal is delivered to its thread exactly once");
    bsv!(resumed(P9) == 0 && resumed(P7) == 0, "every thread with a signal still queued stays in its signal-stop (resuming it without the signal would drop it)");
    bsv!(tracer.inject_signal_queue.len() == 2, "two entries left");
    bsv!(matches!(tracer.inject_signal_queue.front(), Some((p, g)) if p.as_raw() == P9 && *g == s[1]), "queue order kept");
    bsv!(matches!(tracer.inject_signal_queue.back(), Some((p, g)) if p.as_raw() == P7 && *g == s[2]), "last entry kept");
    kani::cover!(s[0] != s[1] && s[1] != s[2], "three different signals");
    kani::cover!(true, "BSV-END");
    std::mem::forget(r);
    std::mem::forget(tracer);
    std::mem::forget(wps);
}

//@ harness: c10_queue_897
//@ property: C10
//@ obligation: H-C10-a
//@ tier: quick
//@ encodes: Tracer::resume, TraceeCtl::cont_stopped_ex, Tracee::continue
//@ symbolic: three queued signals; queue pattern (8, 9, 7) over three threads
//@ bounds: 3 threads, 3 queued entries, one resume; per-loop bounds (default 4)
//@ oracle: only the thread of the popped entry is resumed, with its signal, exactly once; every thread whose signal is still queued is left in its signal-stop; the remaining entries keep their order
//@ stubs: as c10_queue_78
//@ unwindset: ?bsv_tracer::(count|resumed|injected)=7; ?slice_contains=8; ?Tracer::group_stop_interrupt=4
//@ timeout: 1800
tracer_harness!(c10_queue_897, 4, queue_three());

fn is_quiet(s: Signal) -> bool {
    // the property's list
    matches!(s, Signal::SIGALRM | Signal::SIGURG | Signal::SIGCHLD | Signal::SIGIO | Signal::SIGVTALRM | Signal::SIGPROF)
}

fn classification<const PENDING: bool>() {
    tracer_env!(wps, tcx, tracer);
    let pid = Pid::from_raw(P8);
    tracer.tracee_ctl.tracee_ensure_mut(pid).status = TraceeStatus::Running;
    tracer.tracee_ctl.tracee_ensure_mut(Pid::from_raw(P7)).status = TraceeStatus::Running;
    let s = any_signal();
    // another thread may already have a signal waiting for delivery (possibly the same signal number)
    let pending: bool = PENDING;
    let s0 = if PENDING { any_signal() } else { Signal::SIGUSR1 };
    if pending {
        tracer.inject_signal_queue.push_back((Pid::from_raw(P7), s0));
    }
    let before = if pending { 1 } else { 0 };
    let r = tracer.apply_new_status(tcx, WaitStatus::Stopped(pid, s));
    bsv!(matches!(r, Ok(Some(StopReason::SignalStop(p, g))) if p == pid && g == s), "a signal-stop is reported with the receiving thread and the signal");
    let q = &tracer.inject_signal_queue;
    if s == Signal::SIGINT {
        bsv!(q.len() == before, "SIGINT is not queued for delivery");
    } else {
        bsv!(q.len() == before + 1, "every other signal is queued exactly once, whatever is already waiting for other threads");
        bsv!(matches!(q.back(), Some((p, g)) if *p == pid && *g == s), "queued for the thread that received it, behind what was waiting");
    }
    if pending {
        bsv!(matches!(q.front(), Some((p, g)) if p.as_raw() == P7 && *g == s0), "what was waiting stays at the front");
    }
    kani::cover!(!PENDING || (s0 == s && s != Signal::SIGINT), "the same signal number is already waiting for another thread");
    bsv!(tracer.tracee_ctl.tracee_ensure(pid).status == TraceeStatus::Stopped(StopType::SignalStop(s)), "the thread is recorded as signal-stopped");
    let gs = unsafe { GROUP_STOPS };
    if is_quiet(s) {
        bsv!(gs == 0, "a quiet signal does not stop the other threads");
        bsv!(tracer.tracee_ctl.tracee_ensure(Pid::from_raw(P7)).status == TraceeStatus::Running, "other threads keep running on a quiet signal");
    } else {
        bsv!(gs >= 1, "a non-quiet signal stops the whole program");
    }
    kani::cover!(s == Signal::SIGINT, "SIGINT");
    kani::cover!(s == Signal::SIGPROF, "quiet: SIGPROF");
    kani::cover!(s == Signal::SIGWINCH, "SIGWINCH is not quiet");
    kani::cover!(true, "BSV-END");
    std::mem::forget(r);
    std::mem::forget(tracer);
    std::mem::forget(wps);
}

//@ harness: c10_classification
//@ property: C10
//@ obligation: H-C10-b
//@ tier: quick
//@ encodes: Tracer::apply_new_status (signal-stop arm), QUIET_SIGNALS, TRANSPARENT_SIGNALS, Tracee::set_stop
//@ symbolic: the signal (every nix Signal 1..31 except SIGTRAP)
//@ bounds: one wait status, 2 threads, empty injection queue (see c10_classification_pending); per-loop bounds (default 3: two threads, two queue entries; log scans 7; signal lists 8)
//@ oracle: the property's lists: SIGALRM, SIGURG, SIGCHLD, SIGIO, SIGVTALRM, SIGPROF are queued and do not group-stop; SIGINT stops and is not queued; everything else is queued once for the receiving thread and group-stops; always reported as SignalStop(pid, signal)
//@ stubs: ptrace::getsiginfo -> zeroed siginfo; cut: group_stop_interrupt -> counter
//@ unwindset: ?bsv_tracer::(count|resumed|injected)=7; ?slice_contains=8; ?Tracer::group_stop_interrupt=4
//@ timeout: 900
tracer_harness!(c10_classification, 3, classification::<false>());

//@ harness: c10_classification_pending
//@ property: C10
//@ obligation: H-C10-b
//@ tier: quick
//@ encodes: Tracer::apply_new_status (signal-stop arm) with a non-empty injection queue
//@ symbolic: the signal thread 8 receives; the signal already waiting for thread 7 (both 1..31 except SIGTRAP, possibly equal)
//@ bounds: one wait status, 2 threads, exactly one entry already waiting (instance); per-loop bounds
//@ oracle: as c10_classification; in addition the new signal is queued behind the waiting one whatever its number (the same signal number directed at two threads is two deliveries), and the waiting entry is untouched
//@ stubs: as c10_classification
//@ unwindset: ?bsv_tracer::(count|resumed|injected)=7; ?slice_contains=8; ?Tracer::group_stop_interrupt=4
//@ mem_gb: 20
//@ timeout: 1200
tracer_harness!(c10_classification_pending, 3, classification::<true>());

fn passthrough() {
    tracer_env!(wps, tcx, tracer);
    let s = any_signal();
    let quiet = is_quiet(s);
    unsafe { WAIT_SCRIPT[0] = (P8, s as i32) };
    let r = tracer.resume(tcx);
    if quiet {
        bsv!(matches!(r, Ok(StopReason::DebugeeExit(0))), "a quiet signal does not stop the program");
        bsv!(count(P8, s as i32) == 1, "a quiet signal passes straight through, exactly once");
        bsv!(resumed(P8) == 2 && resumed(P7) == 1, "only the signalled thread is resumed again");
        bsv!(tracer.inject_signal_queue.is_empty(), "nothing left queued");
    } else {
        bsv!(matches!(r, Ok(StopReason::SignalStop(p, g)) if p.as_raw() == P8 && g == s), "a non-quiet signal stops the program and is reported");
        bsv!(injected(P8) == 0 && injected(P7) == 0, "nothing is delivered before the user resumes");
        bsv!(resumed(P8) == 1 && resumed(P7) == 1, "no thread is resumed after the stop");
        if s == Signal::SIGINT {
            bsv!(tracer.inject_signal_queue.is_empty(), "SIGINT will not be delivered");
        } else {
            bsv!(tracer.inject_signal_queue.len() == 1, "the signal waits for the next resume");
            bsv!(matches!(tracer.inject_signal_queue.front(), Some((p, g)) if p.as_raw() == P8 && *g == s), "queued for the receiving thread");
            // with every thread stopped and one entry queued, the next resume is the pre-state of c10_queue_8,
            // which delivers it exactly once
            bsv!(tracer.tracee_ctl.tracee_ensure(Pid::from_raw(P7)).is_stopped() && tracer.tracee_ctl.tracee_ensure(Pid::from_raw(P8)).is_stopped(), "every thread is stopped when the stop is reported");
        }
    }
    kani::cover!(quiet, "quiet signal");
    kani::cover!(s == Signal::SIGINT, "SIGINT");
    kani::cover!(s == Signal::SIGSEGV, "SIGSEGV");
    kani::cover!(true, "BSV-END");
    std::mem::forget(r);
    std::mem::forget(tracer);
    std::mem::forget(wps);
}

//@ harness: c10_signal_passthrough
//@ property: C10
//@ obligation: H-C10-a
//@ tier: quick
//@ encodes: Tracer::{resume, apply_new_status}, TraceeCtl::{cont_stopped, cont_stopped_ex}
//@ symbolic: the signal a running thread receives (1..31 except SIGTRAP)
//@ bounds: 2 threads, one signal arriving during one resume; per-loop bounds (default 3: two threads, two queue entries; log scans 7; signal lists 8)
//@ oracle: quiet signals: resume does not return, the signal is passed to its thread exactly once and the program runs on; others: SignalStop is returned, nothing is delivered before the user resumes, and the signal stays queued once for its thread with every thread stopped (pre-state of c10_queue_8, which delivers it exactly once); SIGINT is never queued
//@ stubs: waitpid -> script [Stopped(8, sig)] then Exited(7, 0); ptrace::cont -> log; cut: group_stop_interrupt
//@ unwindset: ?bsv_tracer::(count|resumed|injected)=7; ?slice_contains=8; ?Tracer::group_stop_interrupt=4
//@ timeout: 1500
tracer_harness!(c10_signal_passthrough, 3, passthrough());

// ---------------------------------------------------------------------------------------------
// C01: breakpoint trap classification
// ---------------------------------------------------------------------------------------------

fn trap_classify() {
    reset();
    let pid = Pid::from_raw(P8);
    let mut regs: user_regs_struct = unsafe { std::mem::zeroed() };
    let rip: u64 = kani::any();
    kani::assume(rip >= 1);
    regs.rip = rip;
    let rsp: u64 = kani::any();
    regs.rsp = rsp;
    unsafe {
        REGS = Some(regs);
        SI_CODE = if kani::any() { code::TRAP_BRKPT } else { code::SI_KERNEL };
    }
    let a1: u64 = kani::any();
    let a2: u64 = kani::any();
    kani::assume(a1 != a2);
    // environment contract: a breakpoint trap only comes from a byte this debugger patched
    kani::assume(a1 == rip - 1 || a2 == rip - 1);
    let b1 = Breakpoint::new(PathBuf::new(), RelocatedAddress::from(a1), Pid::from_raw(P7), None);
    let b2 = Breakpoint::new_entry_point(PathBuf::new(), RelocatedAddress::from(a2), Pid::from_raw(P7));
    let bps = [&b1, &b2];
    let wps = WatchpointRegistry::default();
    let tcx = TraceContext::new(&bps, &wps);
    let mut tracer = Tracer::new_external(Pid::from_raw(P7), &[Pid::from_raw(P7), pid]);
    tracer.tracee_ctl.tracee_ensure_mut(pid).status = TraceeStatus::Running;
    let r = tracer.apply_new_status(tcx, WaitStatus::Stopped(pid, Signal::SIGTRAP));
    bsv!(matches!(r, Ok(Some(StopReason::Breakpoint(p, pc))) if p == pid && pc.as_u64() == rip - 1), "the stop is reported for the trapping thread at the true pc (address of the patched byte)");
    let now = unsafe { REGS.unwrap() };
    bsv!(now.rip == rip - 1, "pc is rewound by exactly one, onto the original instruction");
    bsv!(now.rsp == rsp, "no other register changes");
    bsv!(tracer.tracee_ctl.tracee_ensure(pid).is_stopped(), "the thread is recorded as stopped");
    bsv!(unsafe { GROUP_STOPS } >= 1, "the whole program is stopped");
    bsv!(tracer.inject_signal_queue.is_empty(), "a breakpoint trap is not a signal for the program");
    kani::cover!(a2 == rip - 1, "second breakpoint of the set is the one hit");
    kani::cover!(rip == 1, "lowest pc");
    kani::cover!(true, "BSV-END");
    std::mem::forget(r);
    std::mem::forget(tracer);
    std::mem::forget(wps);
    std::mem::forget((b1, b2));
}

//@ harness: c01_trap_classify
//@ property: C01
//@ obligation: H-C01-b
//@ tier: quick
//@ encodes: Tracer::apply_new_status (SIGTRAP / TRAP_BRKPT | SI_KERNEL arm), Tracee::{pc, set_pc}, RegisterMap::{current, value, update, persist}, From<RegisterMap> for user_regs_struct
//@ symbolic: rip (u64 >= 1), rsp, si_code in {TRAP_BRKPT, SI_KERNEL}, addresses of two active breakpoints (one user-defined, one entry-point), which of them was hit
//@ bounds: one trap event, 2 threads, 2 breakpoints, no temporary breakpoints; per-loop bounds (default 3: two threads, two queue entries; log scans 7; signal lists 8)
//@ oracle: Breakpoint(pid, rip-1) is reported for the trapping thread; the register file afterwards has rip-1 and is otherwise unchanged; the thread is marked stopped; a group stop is requested; nothing is queued for injection
//@ assumes: ptrace contract: a breakpoint trap comes only from a byte this debugger patched (some active breakpoint has addr = rip-1)
//@ stubs: ptrace::getregs/setregs -> static register file; getsiginfo -> scripted si_code; cut: group_stop_interrupt
//@ outside: that the CPU traps exactly on patched bytes; temporary breakpoints of other threads (absorbed path); the continue loop's dispatch on breakpoint type
//@ unwindset: ?bsv_tracer::(count|resumed|injected)=7; ?slice_contains=8; ?Tracer::group_stop_interrupt=4
//@ timeout: 1500
tracer_harness!(c01_trap_classify, 3, trap_classify());

// NOTE: the "absorbed" path of the TRAP_BRKPT arm (a temporary breakpoint of another thread: clone, disable, single step,
// re-enable) is not decided: with ptrace read/write, getregs/setregs and single_step stubbed it still ran out of memory at
// 12 GB and at 32 GB (the error paths of Breakpoint::disable/enable build io::Error / Backtrace values whose drop glue
// CBMC expands); DESIGN 11.2.
