//! inject: src/debugger/mod.rs
//
// C15 / C08 — word-granular memory read.  The debuggee's memory is a real harness allocation
// (the code does pointer arithmetic on the address), ptrace::read is stubbed onto it.
use super::*;
use nix::libc::c_long;

macro_rules! bsv {
    ($c:expr, $m:literal) => {
        assert!($c, concat!("BSV: ", $m))
    };
}

const MEM_LEN: usize = 40;
static mut MEM: [u8; MEM_LEN] = [0; MEM_LEN];
static mut READS: usize = 0;

fn base() -> usize {
    std::ptr::addr_of!(MEM) as usize
}
fn stub_read(_pid: Pid, addr: *mut c_void) -> nix::Result<c_long> {
    let a = addr as usize;
    let b = base();
    if a < b || a > b + MEM_LEN - 8 {
        return Err(nix::errno::Errno::EIO);
    }
    let off = a - b;
    unsafe {
        READS += 1;
        Ok(((MEM[off] as u64)
            | (MEM[off + 1] as u64) << 8
            | (MEM[off + 2] as u64) << 16
            | (MEM[off + 3] as u64) << 24
            | (MEM[off + 4] as u64) << 32
            | (MEM[off + 5] as u64) << 40
            | (MEM[off + 6] as u64) << 48
            | (MEM[off + 7] as u64) << 56) as c_long)
    }
}

fn read_exact<const N: usize>() {
    let init: [u8; MEM_LEN] = kani::any();
    unsafe {
        MEM = init;
        READS = 0;
    }
    let off: usize = kani::any();
    kani::assume(off <= 8);
    let r = read_memory_by_pid(Pid::from_raw(7), base() + off, N);
    bsv!(r.is_ok(), "read inside mapped memory succeeds");
    if let Ok(v) = &r {
        bsv!(v.len() == N, "exactly the requested number of bytes");
        let mut i = 0;
        while i < N {
            bsv!(v[i] == init[off + i], "byte i is the byte the process holds at addr+i");
            i += 1;
        }
    }
    bsv!(unsafe { READS } == (N + 7) / 8, "reads only the words covering [addr, addr+n)");
    kani::cover!(off == 7, "maximally unaligned start");
    kani::cover!(true, "BSV-END");
    std::mem::forget(r);
}

//@ harness: c15_read_exact_0
//@ property: C15
//@ obligation: H-C15-a
//@ tier: quick
//@ encodes: debugger::read_memory_by_pid
//@ symbolic: 40 bytes of memory, start offset 0..8 (every alignment)
//@ bounds: length 0 (instance); unwind 12
//@ oracle: result = MEM[off .. off+n], no word beyond the covering ones is read
//@ stubs: nix::sys::ptrace::read -> 40-byte memory model at a real allocation (EIO outside)
//@ timeout: 600
#[kani::proof]
#[kani::stub(nix::sys::ptrace::read, stub_read)]
#[kani::unwind(12)]
fn c15_read_exact_0() {
    read_exact::<0>();
}

//@ harness: c15_read_exact_1
//@ property: C15
//@ obligation: H-C15-a
//@ tier: quick
//@ encodes: debugger::read_memory_by_pid
//@ symbolic: 40 bytes of memory, start offset 0..8
//@ bounds: length 1 (instance); unwind 12
//@ oracle: result = MEM[off .. off+n]
//@ stubs: ptrace::read -> memory model
//@ timeout: 600
#[kani::proof]
#[kani::stub(nix::sys::ptrace::read, stub_read)]
#[kani::unwind(12)]
fn c15_read_exact_1() {
    read_exact::<1>();
}

//@ harness: c15_read_exact_8
//@ property: C15
//@ obligation: H-C15-a
//@ tier: thorough
//@ encodes: debugger::read_memory_by_pid
//@ symbolic: 40 bytes of memory, start offset 0..8
//@ bounds: length 8 (instance); unwind 12
//@ oracle: result = MEM[off .. off+n]
//@ stubs: ptrace::read -> memory model
//@ timeout: 600
#[kani::proof]
#[kani::stub(nix::sys::ptrace::read, stub_read)]
#[kani::unwind(12)]
fn c15_read_exact_8() {
    read_exact::<8>();
}

//@ harness: c15_read_exact_9
//@ property: C15
//@ obligation: H-C15-a
//@ tier: quick
//@ encodes: debugger::read_memory_by_pid
//@ symbolic: 40 bytes of memory, start offset 0..8
//@ bounds: length 9 (instance: one full word + 1); unwind 12
//@ oracle: result = MEM[off .. off+n]
//@ stubs: ptrace::read -> memory model
//@ timeout: 600
#[kani::proof]
#[kani::stub(nix::sys::ptrace::read, stub_read)]
#[kani::unwind(12)]
fn c15_read_exact_9() {
    read_exact::<9>();
}

//@ harness: c15_read_exact_16
//@ property: C15
//@ obligation: H-C15-a
//@ tier: thorough
//@ encodes: debugger::read_memory_by_pid
//@ symbolic: 40 bytes of memory, start offset 0..8
//@ bounds: length 16 (instance); unwind 20
//@ oracle: result = MEM[off .. off+n]
//@ stubs: ptrace::read -> memory model
//@ timeout: 900
#[kani::proof]
#[kani::stub(nix::sys::ptrace::read, stub_read)]
#[kani::unwind(20)]
fn c15_read_exact_16() {
    read_exact::<16>();
}

//@ harness: c15_read_exact_17
//@ property: C15
//@ obligation: H-C15-a
//@ tier: thorough
//@ encodes: debugger::read_memory_by_pid
//@ symbolic: 40 bytes of memory, start offset 0..8
//@ bounds: length 17 (instance: two words + 1); unwind 20
//@ oracle: result = MEM[off .. off+n]
//@ stubs: ptrace::read -> memory model
//@ timeout: 900
#[kani::proof]
#[kani::stub(nix::sys::ptrace::read, stub_read)]
#[kani::unwind(20)]
fn c15_read_exact_17() {
    read_exact::<17>();
}

//@ harness: c15_read_fault
//@ property: C15
//@ obligation: H-C15-a
//@ tier: quick
//@ encodes: debugger::read_memory_by_pid
//@ symbolic: memory; start offset 24..40 so that the second word falls off the mapped window
//@ bounds: length 9; unwind 12
//@ oracle: a read that crosses into unmapped memory is an error, never a short or padded result
//@ stubs: ptrace::read -> memory model (EIO outside the window)
//@ timeout: 600
#[kani::proof]
#[kani::stub(nix::sys::ptrace::read, stub_read)]
#[kani::unwind(12)]
fn c15_read_fault() {
    let init: [u8; MEM_LEN] = kani::any();
    unsafe { MEM = init };
    let off: usize = kani::any();
    kani::assume(off > MEM_LEN - 16 && off <= MEM_LEN - 8);
    let r = read_memory_by_pid(Pid::from_raw(7), base() + off, 9);
    bsv!(r.is_err(), "crossing into unmapped memory is reported");
    kani::cover!(true, "BSV-END");
    std::mem::forget(r);
}
