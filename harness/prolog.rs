//! inject: src/debugger/debugee/dwarf/unit/die_ref.rs
//
// C04-c — the address chosen for a function breakpoint: end of the prologue *inside that function*.
// `FatDieRef<Function>` is a never-initialised partial object; its two DWARF-backed accessors
// (prolog_start_place, end_instruction) are stubbed onto a harness-built line table.
use super::*;
use crate::debugger::debugee::dwarf::unit::LineRow;
use std::mem::MaybeUninit;
use std::path::PathBuf;
use std::ptr::addr_of_mut;

macro_rules! bsv {
    ($c:expr, $m:literal) => {
        assert!($c, concat!("BSV: ", $m))
    };
}

const N: usize = 5;
const PROLOG_END: u8 = 1 << 2;
const END_SEQUENCE: u8 = 1 << 4;
static mut UNIT: *const BsUnit = std::ptr::null();
static mut START: usize = 0;
static mut END_ADDR: u64 = 0;

fn stub_start<'a>(_this: &FatDieRef<'a, Function>) -> Result<PlaceDescriptor<'a>, Error>
where
    'a: 'a,
{
    let unit: &'a BsUnit = unsafe { &*UNIT };
    match unit.find_place_by_idx(unsafe { START }) {
        Some(p) => Ok(p),
        None => Err(Error::ProcessNotStarted),
    }
}
fn stub_end<'a>(_this: &FatDieRef<'a, Function>) -> Result<GlobalAddress, Error>
where
    'a: 'a,
{
    Ok(GlobalAddress::from(unsafe { END_ADDR }))
}

//@ harness: c04_prolog_end_inside_function
//@ property: C04
//@ obligation: H-C04-c
//@ tier: quick
//@ encodes: FatDieRef<Function>::prolog_end_place, PlaceDescriptor::next, BsUnit::find_place_by_idx
//@ symbolic: a 5-row line table (addresses strictly increasing, flags symbolic), the function's first row s and its terminating row e (s < e <= 4): the function owns rows s..e-1, its range is [addr(s), addr(e)); rows from e on belong to whatever follows
//@ bounds: 5 rows; scan loop bounded at 7
//@ oracle: the chosen address lies inside the function's own range; it is the first row of the function marked prologue_end when there is one, and the function's first row when the compiler marked none
//@ stubs: FatDieRef::prolog_start_place -> row s of the harness table; FatDieRef::end_instruction -> addr(e)
//@ timeout: 900
#[kani::proof]
#[kani::stub(FatDieRef::prolog_start_place, stub_start)]
#[kani::stub(FatDieRef::end_instruction, stub_end)]
#[kani::unwind(7)]
fn c04_prolog_end_inside_function() {
    let addrs: [u64; N] = kani::any();
    let flags: [u8; N] = kani::any();
    let mut i = 1;
    while i < N {
        kani::assume(addrs[i - 1] < addrs[i]);
        i += 1;
    }
    let s: usize = kani::any();
    let e: usize = kani::any();
    kani::assume(s < e && e < N);
    // rows inside the function are real rows
    let mut i = 0;
    while i < N {
        kani::assume(flags[i] & !0x1e == 0);
        if i >= s && i < e {
            kani::assume(flags[i] & END_SEQUENCE == 0);
        }
        i += 1;
    }
    let mut u = MaybeUninit::<BsUnit>::uninit();
    let mut lines = Vec::with_capacity(N);
    let mut i = 0;
    while i < N {
        lines.push(LineRow { address: addrs[i], file_index: 0, line: 1, column: 0, flags: flags[i] });
        i += 1;
    }
    let mut files = Vec::with_capacity(1);
    files.push(PathBuf::new());
    unsafe {
        addr_of_mut!((*u.as_mut_ptr()).lines).write(lines);
        addr_of_mut!((*u.as_mut_ptr()).files).write(files);
        UNIT = u.as_ptr();
        START = s;
        END_ADDR = addrs[e];
    }
    let fake = MaybeUninit::<FatDieRef<'_, Function>>::uninit();
    let f: &FatDieRef<'_, Function> = unsafe { &*fake.as_ptr() };
    let r = f.prolog_end_place();
    bsv!(r.is_ok(), "a function with line rows has a breakpoint address");
    if let Ok(p) = &r {
        let a = u64::from(p.address);
        bsv!(a >= addrs[s] && a < addrs[e], "the breakpoint address is an instruction of that function");
        let mut first_pe = N;
        let mut j = e;
        while j > s {
            j -= 1;
            if flags[j] & PROLOG_END != 0 {
                first_pe = j;
            }
        }
        if first_pe < N {
            bsv!(p.pos_in_unit == first_pe, "the first prologue_end row of the function when the compiler marks one");
        } else {
            bsv!(p.pos_in_unit == s, "the function's first row when no prologue end is marked");
        }
        kani::cover!(first_pe == N && e < N - 1 && flags[e + 1] & PROLOG_END != 0, "no marker in this function, the next function has one");
        kani::cover!(first_pe == s + 1, "marker on the second row");
    }
    kani::cover!(true, "BSV-END");
    std::mem::forget(r);
}
