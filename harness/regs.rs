//! inject: src/debugger/register.rs
//
// C15-c register file round trip; C05-a DWARF register numbering (psABI table as oracle).
use super::*;

macro_rules! bsv {
    ($c:expr, $m:literal) => {
        assert!($c, concat!("BSV: ", $m))
    };
}

fn any_regs() -> user_regs_struct {
    user_regs_struct {
        r15: kani::any(),
        r14: kani::any(),
        r13: kani::any(),
        r12: kani::any(),
        rbp: kani::any(),
        rbx: kani::any(),
        r11: kani::any(),
        r10: kani::any(),
        r9: kani::any(),
        r8: kani::any(),
        rax: kani::any(),
        rcx: kani::any(),
        rdx: kani::any(),
        rsi: kani::any(),
        rdi: kani::any(),
        orig_rax: kani::any(),
        rip: kani::any(),
        cs: kani::any(),
        eflags: kani::any(),
        rsp: kani::any(),
        ss: kani::any(),
        fs_base: kani::any(),
        gs_base: kani::any(),
        ds: kani::any(),
        es: kani::any(),
        fs: kani::any(),
        gs: kani::any(),
    }
}

const ALL: [Register; 27] = [
    Register::Rax, Register::Rbx, Register::Rcx, Register::Rdx, Register::Rdi, Register::Rsi,
    Register::Rbp, Register::Rsp, Register::R8, Register::R9, Register::R10, Register::R11,
    Register::R12, Register::R13, Register::R14, Register::R15, Register::Rip, Register::Eflags,
    Register::Cs, Register::OrigRax, Register::FsBase, Register::GsBase, Register::Fs, Register::Gs,
    Register::Ss, Register::Ds, Register::Es,
];

/// the kernel's field for a register, written out independently of the code under test
fn field(r: &user_regs_struct, reg: Register) -> u64 {
    match reg {
        Register::Rax => r.rax,
        Register::Rbx => r.rbx,
        Register::Rcx => r.rcx,
        Register::Rdx => r.rdx,
        Register::Rdi => r.rdi,
        Register::Rsi => r.rsi,
        Register::Rbp => r.rbp,
        Register::Rsp => r.rsp,
        Register::R8 => r.r8,
        Register::R9 => r.r9,
        Register::R10 => r.r10,
        Register::R11 => r.r11,
        Register::R12 => r.r12,
        Register::R13 => r.r13,
        Register::R14 => r.r14,
        Register::R15 => r.r15,
        Register::Rip => r.rip,
        Register::Eflags => r.eflags,
        Register::Cs => r.cs,
        Register::OrigRax => r.orig_rax,
        Register::FsBase => r.fs_base,
        Register::GsBase => r.gs_base,
        Register::Fs => r.fs,
        Register::Gs => r.gs,
        Register::Ss => r.ss,
        Register::Ds => r.ds,
        Register::Es => r.es,
    }
}
fn any_register() -> Register {
    let i: usize = kani::any();
    kani::assume(i < 27);
    ALL[i]
}

//@ harness: c15_regfile_roundtrip
//@ property: C15
//@ obligation: H-C15-c
//@ tier: quick
//@ encodes: RegisterMap::{from(user_regs_struct), value, update}, From<RegisterMap> for user_regs_struct
//@ symbolic: all 27 fields of user_regs_struct, the register written, the value written
//@ bounds: loop-free code under test; harness loop over the 27 registers (unwind 29)
//@ oracle: value(x) is the kernel field of x for every register; into(from(r)) = r field by field; after update(x, v): value(x) = v, every other register unchanged, and the struct written back differs from r only in x's field
//@ timeout: 900
#[kani::proof]
#[kani::unwind(29)]
fn c15_regfile_roundtrip() {
    let r = any_regs();
    let map = RegisterMap::from(r);
    let mut i = 0;
    while i < 27 {
        bsv!(map.value(ALL[i]) == field(&r, ALL[i]), "value(x) reads the kernel field of x");
        i += 1;
    }
    let back: user_regs_struct = map.clone().into();
    let mut i = 0;
    while i < 27 {
        bsv!(field(&back, ALL[i]) == field(&r, ALL[i]), "into(from(r)) = r");
        i += 1;
    }
    let x = any_register();
    let v: u64 = kani::any();
    let mut m2 = map.clone();
    m2.update(x, v);
    bsv!(m2.value(x) == v, "a register write is visible to a subsequent read");
    let back2: user_regs_struct = m2.into();
    let mut i = 0;
    while i < 27 {
        if ALL[i] == x {
            bsv!(field(&back2, ALL[i]) == v, "the written register reaches the kernel struct");
        } else {
            bsv!(field(&back2, ALL[i]) == field(&r, ALL[i]), "a register write changes no other register");
        }
        i += 1;
    }
    kani::cover!(x == Register::Rip, "write to rip");
    kani::cover!(x == Register::Es, "write to the last field");
    kani::cover!(true, "BSV-END");
}

/// System V AMD64 psABI, figure 3.36 (DWARF register number mapping) + gimli's RA = 16
fn psabi(n: u16, r: &user_regs_struct) -> Option<u64> {
    Some(match n {
        0 => r.rax,
        1 => r.rdx,
        2 => r.rcx,
        3 => r.rbx,
        4 => r.rsi,
        5 => r.rdi,
        6 => r.rbp,
        7 => r.rsp,
        8 => r.r8,
        9 => r.r9,
        10 => r.r10,
        11 => r.r11,
        12 => r.r12,
        13 => r.r13,
        14 => r.r14,
        15 => r.r15,
        16 => r.rip,
        49 => r.eflags,
        50 => r.es,
        51 => r.cs,
        52 => r.ss,
        53 => r.ds,
        54 => r.fs,
        55 => r.gs,
        58 => r.fs_base,
        59 => r.gs_base,
        _ => return None,
    })
}

//@ harness: c05_dwarf_regmap
//@ property: C05
//@ obligation: H-C05-a
//@ tier: quick
//@ encodes: DwarfRegisterMap::{from(RegisterMap), value}, RegisterMap::from(user_regs_struct)
//@ symbolic: all 27 register values, the DWARF register number queried (u16, 0..=127 and above)
//@ bounds: 26 SmallVec inserts into a 128-entry vector (loops inside smallvec bounded per loop)
//@ oracle: psABI DWARF numbering: rax 0, rdx 1, rcx 2, rbx 3, rsi 4, rdi 5, rbp 6, rsp 7, r8-r15 8-15, RA 16, eflags 49, es cs ss ds fs gs 50-55, fs.base 58, gs.base 59; every other number is RegisterNotFound
//@ timeout: 1800
//@ mem_gb: 16
#[kani::proof]
#[kani::unwind(160)]
fn c05_dwarf_regmap() {
    let r = any_regs();
    let map = DwarfRegisterMap::from(RegisterMap::from(r));
    let n: u16 = kani::any();
    let got = map.value(gimli::Register(n));
    match psabi(n, &r) {
        Some(v) => bsv!(matches!(got, Ok(x) if x == v), "DWARF register n is the psABI machine register"),
        None => bsv!(got.is_err(), "unmapped DWARF register numbers have no value"),
    }
    kani::cover!(n == 16, "return address column");
    kani::cover!(n == 59, "gs.base");
    kani::cover!(n == 17, "unmapped number between the blocks");
    kani::cover!(n > 200, "number beyond the table");
    kani::cover!(true, "BSV-END");
    std::mem::forget(got);
    std::mem::forget(map);
}

//@ harness: c05_dwarf_regmap_update
//@ property: C05
//@ obligation: H-C05-a
//@ tier: quick
//@ encodes: DwarfRegisterMap::{update, value}
//@ symbolic: register values, the updated register number (0..=59), the value
//@ bounds: 154-entry vectors, loops bounded at 160
//@ oracle: update(n, v) makes value(n) = v and changes no other column (update_from: see c05_dwarf_regmap_update_from)
//@ timeout: 2400
//@ mem_gb: 16
#[kani::proof]
#[kani::unwind(160)]
fn c05_dwarf_regmap_update() {
    let r = any_regs();
    let mut map = DwarfRegisterMap::from(RegisterMap::from(r));
    let n: u16 = kani::any();
    kani::assume(n <= 59);
    let v: u64 = kani::any();
    map.update(gimli::Register(n), v);
    let q: u16 = kani::any();
    kani::assume(q <= 64);
    let got = map.value(gimli::Register(q));
    if q == n {
        bsv!(matches!(got, Ok(x) if x == v), "updated column holds the new value");
    } else {
        match psabi(q, &r) {
            Some(old) => bsv!(matches!(got, Ok(x) if x == old), "other columns unchanged by update"),
            None => bsv!(got.is_err(), "unmapped columns stay unmapped"),
        }
    }
    kani::cover!(n == 17 && q == 17, "a column outside the psABI set can be given a value");
    kani::cover!(true, "BSV-END");
    std::mem::forget(got);
    std::mem::forget(map);
}

//@ harness: c05_dwarf_regmap_update_from
//@ property: C05
//@ obligation: H-C05-a
//@ tier: quick
//@ encodes: DwarfRegisterMap::{update_from, update, value, from(RegisterMap)}
//@ symbolic: all registers of the younger frame's map; in the map of rule-restored registers two columns (0..=16, possibly equal) with arbitrary values, zero included
//@ bounds: 154-entry vectors, loops bounded at 160
//@ oracle: selecting frame k: update_from overrides exactly the columns the unwinder restored (whatever their value - a callee-saved register that is 0 in the caller is 0), every other column is carried from the younger frame
//@ timeout: 2400
//@ mem_gb: 16
#[kani::proof]
#[kani::unwind(160)]
fn c05_dwarf_regmap_update_from() {
    let r = any_regs();
    let mut map = DwarfRegisterMap::from(RegisterMap::from(r));
    let mut restored = DwarfRegisterMap(smallvec![None; 154]);
    let n1: u16 = kani::any();
    let n2: u16 = kani::any();
    kani::assume(n1 <= 16 && n2 <= 16);
    let v1: u64 = kani::any();
    let v2: u64 = kani::any();
    restored.update(gimli::Register(n1), v1);
    restored.update(gimli::Register(n2), v2);
    map.update_from(&restored);
    let q: u16 = kani::any();
    kani::assume(q <= 64);
    let got = map.value(gimli::Register(q));
    if q == n2 {
        bsv!(matches!(got, Ok(x) if x == v2), "a restored register holds the value it has in the selected activation");
    } else if q == n1 {
        bsv!(matches!(got, Ok(x) if x == v1), "a restored register holds the value it has in the selected activation (first one)");
    } else {
        match psabi(q, &r) {
            Some(old) => bsv!(matches!(got, Ok(x) if x == old), "registers without a rule are carried from the younger frame"),
            None => bsv!(got.is_err(), "unmapped columns stay unmapped"),
        }
    }
    kani::cover!(q == n1 && n1 != n2 && v1 == 0, "a restored register whose value is 0");
    kani::cover!(q == 3 && n1 != 3 && n2 != 3, "rbx carried over");
    kani::cover!(true, "BSV-END");
    std::mem::forget(got);
    std::mem::forget(map);
    std::mem::forget(restored);
}
