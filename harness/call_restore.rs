//! inject: src/debugger/call/mod.rs
//
// C16-b — an injected call leaves no trace: Debugger::call_fn_raw (CallContext::{new, with_ccx,
// retrieve_original_state}, CallHelper::{mmap, jump, call_fn, munmap}) run against a model of the stopped thread:
// a register file, the text word at the interrupted pc and the first word of the scratch page.  Every
// PTRACE_SINGLESTEP / PTRACE_CONT replaces the whole register file by arbitrary values ("the CPU did something"),
// with only the values the code inspects afterwards (rax after the syscalls, rip after the jump) named, so that
// every early-exit path (mmap failed, jump missed, munmap failed) and one failing ptrace call at an arbitrary point are explored.
// `&Debugger` is a never-initialised partial object (T2): only `expl_context` is written.
use super::*;
use crate::debugger::address::GlobalAddress;
use crate::debugger::debugee::Location;
use crate::debugger::ExplorationContext;
use nix::libc::user_regs_struct;
use nix::unistd::Pid;
use std::mem::MaybeUninit;
use std::ptr::addr_of_mut;

macro_rules! bsv {
    ($c:expr, $m:literal) => {
        assert!($c, concat!("BSV: ", $m))
    };
}

const PC: usize = 0x5555_5555_1230;
const PAGE: u64 = 0x7fff_f7a0_0000;
const TID: i32 = 7;

static mut REGS: MaybeUninit<user_regs_struct> = MaybeUninit::uninit();
static mut TEXT_AT_PC: usize = 0;
static mut TEXT_AT_PAGE: usize = 0;
/// environment calls made so far inside the call sequence (setregs, poke, step, cont, getregs)
static mut ENV_CALLS: usize = 0;
/// which environment call fails (0 = none)
static mut FAIL_AT: usize = 0;
static mut CONTS: usize = 0;
static mut STEPS: usize = 0;
static mut AT_CALL: MaybeUninit<user_regs_struct> = MaybeUninit::uninit();
static mut TEXT_AT_CALL: usize = 0;
static mut PC_TEXT_AT_CALL: usize = 0;
static mut WILD_WRITE: bool = false;
/// results the "CPU" produces: rax after the mmap syscall, rip after the jump, rax after the munmap syscall
static mut MMAP_RET: u64 = 0;
static mut JUMP_RIP: u64 = 0;
static mut MUNMAP_RET: u64 = 0;

fn any_regs() -> user_regs_struct {
    user_regs_struct {
        r15: kani::any(),
        r14: kani::any(),
        r13: kani::any(),
        r12: kani::any(),
        rbp: kani::any(),
        rbx: kani::any(),
        r11: kani::any(),
        r10: kani::any(),
        r9: kani::any(),
        r8: kani::any(),
        rax: kani::any(),
        rcx: kani::any(),
        rdx: kani::any(),
        rsi: kani::any(),
        rdi: kani::any(),
        orig_rax: kani::any(),
        rip: kani::any(),
        cs: kani::any(),
        eflags: kani::any(),
        rsp: kani::any(),
        ss: kani::any(),
        fs_base: kani::any(),
        gs_base: kani::any(),
        ds: kani::any(),
        es: kani::any(),
        fs: kani::any(),
        gs: kani::any(),
    }
}
fn same_regs(a: &user_regs_struct, b: &user_regs_struct) -> bool {
    a.r15 == b.r15
        && a.r14 == b.r14
        && a.r13 == b.r13
        && a.r12 == b.r12
        && a.rbp == b.rbp
        && a.rbx == b.rbx
        && a.r11 == b.r11
        && a.r10 == b.r10
        && a.r9 == b.r9
        && a.r8 == b.r8
        && a.rax == b.rax
        && a.rcx == b.rcx
        && a.rdx == b.rdx
        && a.rsi == b.rsi
        && a.rdi == b.rdi
        && a.orig_rax == b.orig_rax
        && a.rip == b.rip
        && a.cs == b.cs
        && a.eflags == b.eflags
        && a.rsp == b.rsp
        && a.ss == b.ss
        && a.fs_base == b.fs_base
        && a.gs_base == b.gs_base
        && a.ds == b.ds
        && a.es == b.es
        && a.fs == b.fs
        && a.gs == b.gs
}

fn env_fault() -> bool {
    unsafe {
        ENV_CALLS += 1;
        FAIL_AT != 0 && ENV_CALLS == FAIL_AT
    }
}

fn stub_getregs(_pid: Pid) -> nix::Result<user_regs_struct> {
    if env_fault() {
        return Err(nix::errno::Errno::ESRCH);
    }
    Ok(unsafe { REGS.assume_init() })
}
fn stub_setregs(_pid: Pid, regs: user_regs_struct) -> nix::Result<()> {
    if env_fault() {
        return Err(nix::errno::Errno::ESRCH);
    }
    unsafe { REGS = MaybeUninit::new(regs) };
    Ok(())
}
fn stub_write_memory(_this: &Debugger, addr: usize, value: usize) -> Result<(), Error> {
    if env_fault() {
        return Err(Error::Ptrace(nix::errno::Errno::EIO));
    }
    unsafe {
        if addr == PC {
            TEXT_AT_PC = value;
        } else if addr as u64 == PAGE {
            TEXT_AT_PAGE = value;
        } else {
            WILD_WRITE = true;
        }
    }
    Ok(())
}
fn stub_read_memory_by_pid(_pid: Pid, addr: usize, n: usize) -> Result<Vec<u8>, nix::Error> {
    if addr != PC || n != 8 {
        return Err(nix::errno::Errno::EIO);
    }
    let w = unsafe { TEXT_AT_PC }.to_ne_bytes();
    let mut v = Vec::with_capacity(8);
    let mut i = 0;
    while i < 8 {
        v.push(w[i]);
        i += 1;
    }
    Ok(v)
}
/// one instruction executed: everything may have changed; the n-th step yields the scripted value the code looks at
fn stub_step<T: Into<Option<Signal>>>(_pid: Pid, _sig: T) -> nix::Result<()> {
    if env_fault() {
        return Err(nix::errno::Errno::ESRCH);
    }
    let mut r = any_regs();
    unsafe {
        STEPS += 1;
        // what is executed is what the text at rip says: `syscall` (0F 05) at the interrupted pc, or `jmp *%rax` (FF E0)
        let cur = REGS.assume_init();
        if cur.rip as usize == PC && TEXT_AT_PC & 0xFFFF == 0x050F {
            r.rax = if cur.rax == 9 { MMAP_RET } else { MUNMAP_RET };
            r.rip = cur.rip + 2;
        } else if cur.rip as usize == PC && TEXT_AT_PC & 0xFFFF == 0xE0FF {
            r.rip = if JUMP_RIP == 0 { cur.rax } else { JUMP_RIP };
        }
        REGS = MaybeUninit::new(r);
    }
    Ok(())
}
fn stub_cont<T: Into<Option<Signal>>>(_pid: Pid, _sig: T) -> nix::Result<()> {
    if env_fault() {
        return Err(nix::errno::Errno::ESRCH);
    }
    unsafe {
        CONTS += 1;
        AT_CALL = MaybeUninit::new(REGS.assume_init());
        TEXT_AT_CALL = TEXT_AT_PAGE;
        PC_TEXT_AT_CALL = TEXT_AT_PC;
        REGS = MaybeUninit::new(any_regs());
    }
    Ok(())
}
fn stub_waitpid<P: Into<Option<Pid>>>(_pid: P, _opts: Option<nix::sys::wait::WaitPidFlag>) -> nix::Result<WaitStatus> {
    Ok(WaitStatus::Stopped(Pid::from_raw(TID), Signal::SIGTRAP))
}
fn stub_region(_pid: Pid, _addr: u64) -> std::io::Result<bool> {
    Ok(true)
}
unsafe extern "C" fn stub_sysconf(_name: nix::libc::c_int) -> nix::libc::c_long {
    4096
}
fn no_backtrace() -> std::backtrace::Backtrace {
    std::backtrace::Backtrace::disabled()
}

fn run_call<const NARGS: usize>(faults: bool) {
    let regs0 = {
        let mut r = any_regs();
        r.rip = PC as u64;
        r
    };
    let text0: usize = kani::any();
    let fn_addr: u64 = kani::any();
    let argv: [u64; NARGS] = kani::any();
    unsafe {
        REGS = MaybeUninit::new(regs0);
        TEXT_AT_PC = text0;
        TEXT_AT_PAGE = kani::any();
        ENV_CALLS = 0;
        FAIL_AT = if faults { kani::any() } else { 0 };
        CONTS = 0;
        STEPS = 0;
        WILD_WRITE = false;
        MMAP_RET = kani::any();
        kani::assume(MMAP_RET == PAGE || MMAP_RET == u64::MAX);
        JUMP_RIP = kani::any();
        kani::assume(JUMP_RIP == 0 || JUMP_RIP == PAGE + 0x40);
        MUNMAP_RET = kani::any();
        // Environment calls in order: CallContext::new getregs (1); mmap setregs, poke, step, getregs (2-5); jump setregs,
        // poke, step, getregs (6-9); call_fn poke, setregs, cont (10-12); setregs (13); munmap poke, setregs, step, getregs,
        // poke (14-18); then the final restore (setregs, poke).  A stage that fails on its own (mmap -1, jump missed,
        // munmap != 0) goes to the restore early; the fault is kept out of the restore itself: its failure is the
        // documented `expect` (debugger abort), not a silent trace.
        let last = if MMAP_RET != PAGE {
            5
        } else if JUMP_RIP != 0 {
            9
        } else if MUNMAP_RET != 0 {
            17
        } else {
            18
        };
        kani::assume(FAIL_AT <= last);
    }
    let mut fake = MaybeUninit::<Debugger>::uninit();
    let p = fake.as_mut_ptr();
    unsafe {
        addr_of_mut!((*p).expl_context).write(ExplorationContext::new(
            Location::new(RelocatedAddress::from(PC), GlobalAddress::from(0x1230usize), Pid::from_raw(TID)),
            0,
        ));
    }
    let dbg: &Debugger = unsafe { &*p };
    let mut v = Vec::with_capacity(NARGS);
    let mut i = 0;
    while i < NARGS {
        v.push((argv[i], RegType::General));
        i += 1;
    }
    let args = CallArgs(v.into_boxed_slice());

    let r = dbg.call_fn_raw(RelocatedAddress::from(fn_addr as usize), args);

    let regs1 = unsafe { REGS.assume_init() };
    bsv!(same_regs(&regs1, &regs0), "every register holds its value from before the call, on every way out");
    bsv!(unsafe { TEXT_AT_PC } == text0, "the instruction bytes at the interrupted pc are the original ones, on every way out");
    bsv!(unsafe { !WILD_WRITE }, "only the interrupted pc and the scratch page are ever written");
    bsv!(unsafe { CONTS } <= 1, "the function is started at most once");
    if r.is_ok() {
        bsv!(unsafe { CONTS } == 1, "a successful call has run the function exactly once");
        bsv!(unsafe { MMAP_RET == PAGE && JUMP_RIP == 0 && MUNMAP_RET == 0 && FAIL_AT == 0 }, "success is reported only when every stage succeeded");
    }
    if unsafe { CONTS } == 1 {
        let c = unsafe { AT_CALL.assume_init() };
        bsv!(c.rip == PAGE, "the trampoline runs in the scratch page, not in program text");
        bsv!(c.rax == fn_addr, "the trampoline calls the requested function");
        bsv!(unsafe { TEXT_AT_CALL } & 0xFF_FFFF == 0xCC_D0FF, "the trampoline is `call *%rax; int3`");
        let want = [c.rdi, c.rsi, c.rdx, c.rcx, c.r8, c.r9];
        let mut k = 0;
        while k < NARGS {
            bsv!(want[k] == argv[k], "argument k is in the k-th integer argument register when the function starts");
            k += 1;
        }
        bsv!(c.rsp == regs0.rsp && c.rbp == regs0.rbp && c.fs_base == regs0.fs_base, "stack, frame and TLS base are the thread's own when the function starts");
    }
    kani::cover!(r.is_ok(), "call completed");
    kani::cover!(r.is_err() && unsafe { CONTS } == 0 && unsafe { STEPS } == 1, "mmap refused: nothing was run");
    kani::cover!(r.is_err() && unsafe { CONTS } == 0 && unsafe { STEPS } == 2, "jump missed the scratch page");
    kani::cover!(r.is_err() && unsafe { CONTS } == 1, "munmap failed after the function ran");
    kani::cover!(!faults || (r.is_err() && unsafe { FAIL_AT } == 12), "PTRACE_CONT itself failed");
    std::mem::forget(r);
    kani::cover!(true, "BSV-END");
}

//@ harness: c16_call_leaves_no_trace
//@ property: C16
//@ obligation: H-C16-b
//@ tier: quick
//@ encodes: Debugger::call_fn_raw, CallContext::{new, with_ccx, retrieve_original_state}, CallHelper::{mmap, jump, call_fn, munmap}, CallArgs::prepare_registers, RegisterMap::{current, persist, update, value, clone}
//@ symbolic: the whole register file before the call, the 8 text bytes at the interrupted pc, the function address, two argument values; after every single step and after the call itself the whole register file is arbitrary; mmap returns the page or -1, the jump lands in the page or elsewhere, munmap returns anything
//@ bounds: one call, two integer arguments (instance); loop bounds 9 (byte copies)
//@ oracle: on every way out (Ok, Mmap / Jmp / Munmap errors) all 27 registers and the text word at pc equal their values before the call; the function is started at most once, exactly once on Ok, from the scratch page with `call *%rax; int3`, rax = function, arguments in rdi, rsi; nothing but pc and the page is written
//@ stubs: ptrace getregs / setregs -> register file model; Debugger::write_memory -> two-word text model; read_memory_by_pid -> the word at pc; ptrace::step / cont -> arbitrary new register file (scripted rax / rip); waitpid -> Stopped(SIGTRAP); utils::region_exist / region_non_exist -> true (debug assertions only); libc::sysconf -> 4096; Backtrace::capture -> disabled
//@ assumes: the thread is stopped at the pc recorded in the exploration context (rip = pc); ptrace calls succeed (the fault schedule is c16_call_restores_under_fault)
//@ outside: that the CPU runs f exactly once per PTRACE_CONT; the red zone below rsp (rsp is not lowered before `call`); with_disabled_brkpts (patch level: C02); the call cache; vard/argd
//@ unwindset: run_call=4; ?read_memory_by_pid=9
//@ timeout: 2400
//@ mem_gb: 16
#[kani::proof]
#[kani::stub(nix::sys::ptrace::getregs, stub_getregs)]
#[kani::stub(nix::sys::ptrace::setregs, stub_setregs)]
#[kani::stub(nix::sys::ptrace::step, stub_step)]
#[kani::stub(nix::sys::ptrace::cont, stub_cont)]
#[kani::stub(nix::sys::wait::waitpid, stub_waitpid)]
#[kani::stub(Debugger::write_memory, stub_write_memory)]
#[kani::stub(crate::debugger::read_memory_by_pid, stub_read_memory_by_pid)]
#[kani::stub(crate::debugger::utils::region_exist, stub_region)]
#[kani::stub(crate::debugger::utils::region_non_exist, stub_region)]
#[kani::stub(nix::libc::sysconf, stub_sysconf)]
#[kani::stub(std::backtrace::Backtrace::capture, no_backtrace)]
#[kani::unwind(9)]
fn c16_call_leaves_no_trace() {
    run_call::<2>(false);
}

//@ harness: c16_call_restores_under_fault
//@ property: C16
//@ obligation: H-C16-b
//@ tier: quick
//@ encodes: as c16_call_leaves_no_trace
//@ symbolic: as c16_call_leaves_no_trace, plus the index (1..18, or none) of ONE environment call - getregs, setregs, poke, single step, cont - that fails with ESRCH / EIO and has no effect
//@ bounds: one call, one integer argument, one fault
//@ oracle: as c16_call_leaves_no_trace: whichever call fails, the error path still puts back every register and the text word
//@ stubs: as c16_call_leaves_no_trace; every environment stub consults the fault schedule first
//@ assumes: the two calls of the final restore itself succeed (their failure is the documented `expect`, a debugger abort: C08, outside this claim); a failed ptrace call has no partial effect
//@ outside: two or more faults; faults that persist
//@ unwindset: run_call=4; ?read_memory_by_pid=9
//@ timeout: 2400
//@ mem_gb: 16
#[kani::proof]
#[kani::stub(nix::sys::ptrace::getregs, stub_getregs)]
#[kani::stub(nix::sys::ptrace::setregs, stub_setregs)]
#[kani::stub(nix::sys::ptrace::step, stub_step)]
#[kani::stub(nix::sys::ptrace::cont, stub_cont)]
#[kani::stub(nix::sys::wait::waitpid, stub_waitpid)]
#[kani::stub(Debugger::write_memory, stub_write_memory)]
#[kani::stub(crate::debugger::read_memory_by_pid, stub_read_memory_by_pid)]
#[kani::stub(crate::debugger::utils::region_exist, stub_region)]
#[kani::stub(crate::debugger::utils::region_non_exist, stub_region)]
#[kani::stub(nix::libc::sysconf, stub_sysconf)]
#[kani::stub(std::backtrace::Backtrace::capture, no_backtrace)]
#[kani::unwind(9)]
fn c16_call_restores_under_fault() {
    run_call::<1>(true);
}
