//! inject: src/dap/yadap/session/breakpoint.rs
//! t7: src/dap/yadap/session/mod.rs, src/dap/yadap/session/breakpoint.rs, src/dap/yadap/session/control.rs, src/dap/yadap/session/other.rs, src/dap/yadap/session/frame.rs
//
// C13 — hitCondition semantics: "N", "=N", "==N" stop on exactly the N-th hit, ">N", ">=N", "<N",
// "<=N" as written, anything else is Invalid (which the caller reports and never silently drops).
// The input string is a fixed-length array of symbolic bytes over the alphabet [0-9<>= ].
use super::*;

macro_rules! bsv {
    ($c:expr, $m:literal) => {
        assert!($c, concat!("BSV: ", $m))
    };
}

#[derive(PartialEq, Clone, Copy)]
enum Op {
    Eq,
    Ge,
    Gt,
    Lt,
    Le,
    Bad,
}

/// reference reading of a hit condition over the harness alphabet (digits, '<', '>', '=', ' ')
fn reference<const N: usize>(b: &[u8; N]) -> (Op, u64) {
    let mut lo = 0;
    let mut hi = N;
    while lo < hi && b[lo] == b' ' {
        lo += 1;
    }
    while hi > lo && b[hi - 1] == b' ' {
        hi -= 1;
    }
    let mut op = Op::Eq;
    if lo < hi {
        let c0 = b[lo];
        let c1 = if lo + 1 < hi { b[lo + 1] } else { 0 };
        if c0 == b'>' && c1 == b'=' {
            op = Op::Ge;
            lo += 2;
        } else if c0 == b'<' && c1 == b'=' {
            op = Op::Le;
            lo += 2;
        } else if c0 == b'=' && c1 == b'=' {
            op = Op::Eq;
            lo += 2;
        } else if c0 == b'=' {
            op = Op::Eq;
            lo += 1;
        } else if c0 == b'>' {
            op = Op::Gt;
            lo += 1;
        } else if c0 == b'<' {
            op = Op::Lt;
            lo += 1;
        }
    }
    while lo < hi && b[lo] == b' ' {
        lo += 1;
    }
    if lo >= hi {
        return (Op::Bad, 0);
    }
    let mut v: u64 = 0;
    while lo < hi {
        let c = b[lo];
        if !(b'0'..=b'9').contains(&c) {
            return (Op::Bad, 0);
        }
        v = v * 10 + (c - b'0') as u64;
        lo += 1;
    }
    (op, v)
}

fn hit_condition<const N: usize>() {
    let b: [u8; N] = kani::any();
    let mut i = 0;
    while i < N {
        let c = b[i];
        kani::assume((b'0'..=b'9').contains(&c) || c == b'<' || c == b'>' || c == b'=' || c == b' ');
        i += 1;
    }
    let s = unsafe { std::str::from_utf8_unchecked(&b) };
    let hc = HitCondition::parse(s);
    let (op, n) = reference(&b);
    let hits: u64 = kani::any();
    let m = hc.matches(hits);
    match &hc {
        HitCondition::Exact(x) => {
            bsv!(op == Op::Eq && *x == n, "N, =N, ==N parse as Exact(N)");
            bsv!(m == (hits == n), "Exact(N) stops on exactly the N-th hit");
        }
        HitCondition::GreaterOrEqual(x) => {
            bsv!(op == Op::Ge && *x == n, ">=N parses as GreaterOrEqual(N)");
            bsv!(m == (hits >= n), ">=N stops from the N-th hit on");
        }
        HitCondition::Greater(x) => {
            bsv!(op == Op::Gt && *x == n, ">N parses as Greater(N)");
            bsv!(m == (hits > n), ">N stops after the N-th hit");
        }
        HitCondition::Less(x) => {
            bsv!(op == Op::Lt && *x == n, "<N parses as Less(N)");
            bsv!(m == (hits < n), "<N stops before the N-th hit");
        }
        HitCondition::LessOrEqual(x) => {
            bsv!(op == Op::Le && *x == n, "<=N parses as LessOrEqual(N)");
            bsv!(m == (hits <= n), "<=N stops up to the N-th hit");
        }
        HitCondition::Invalid(_) => {
            bsv!(op == Op::Bad, "only malformed text is Invalid");
        }
    }
    kani::cover!(matches!(hc, HitCondition::GreaterOrEqual(_) | HitCondition::Greater(_)), "a >N or >=N condition");
    kani::cover!(N < 3 || matches!(hc, HitCondition::LessOrEqual(_)), "a <=N condition");
    kani::cover!(matches!(hc, HitCondition::Exact(_)) && b[0] == b'=', "an =N condition");
    kani::cover!(matches!(hc, HitCondition::Invalid(_)), "malformed");
    kani::cover!(true, "BSV-END");
    std::mem::forget(hc);
}

//@ harness: c13_hit_condition_2
//@ property: C13
//@ obligation: H-C13-a
//@ tier: quick
//@ encodes: HitCondition::{parse, matches}
//@ symbolic: 2 bytes of text over [0-9<>= ], the hit count (u64)
//@ bounds: text length 2 (instance); unwind 4 (trim / strip_prefix / parse loops over <= 2 bytes; unwinding assertions on)
//@ oracle: independent byte-level reader of the documented forms N, =N, ==N, >N, >=N, <N, <=N (blanks allowed around operator and number); matches() compares the running hit count with N as written
//@ outside: numbers beyond 5 digits (u64 overflow of the parser), non-ASCII text, what the session does with Invalid
//@ timeout: 900
#[kani::proof]
#[kani::unwind(4)]
fn c13_hit_condition_2() {
    hit_condition::<2>();
}

//@ harness: c13_hit_condition_3
//@ property: C13
//@ obligation: H-C13-a
//@ tier: quick
//@ encodes: HitCondition::{parse, matches}
//@ symbolic: 3 bytes of text over [0-9<>= ], the hit count (u64)
//@ bounds: text length 3 (instance); unwind 5
//@ oracle: as c13_hit_condition_2
//@ timeout: 1200
#[kani::proof]
#[kani::unwind(5)]
fn c13_hit_condition_3() {
    hit_condition::<3>();
}

//@ harness: c13_hit_condition_4
//@ property: C13
//@ obligation: H-C13-a
//@ tier: thorough
//@ encodes: HitCondition::{parse, matches}
//@ symbolic: 4 bytes of text over [0-9<>= ], the hit count (u64)
//@ bounds: text length 4 (instance); unwind 6
//@ oracle: as c13_hit_condition_2
//@ timeout: 2400
#[kani::proof]
#[kani::unwind(6)]
fn c13_hit_condition_4() {
    hit_condition::<4>();
}
