//! Association-list models of std::collections::{HashMap, HashSet} (API subset).
#![allow(dead_code)]
use std::borrow::Borrow;

#[derive(Clone, Debug)]
pub struct HashMap<K, V> {
    items: Vec<(K, V)>,
}

impl<K, V> Default for HashMap<K, V> {
    fn default() -> Self {
        Self { items: Vec::new() }
    }
}

impl<K: PartialEq, V> HashMap<K, V> {
    pub fn new() -> Self {
        Self { items: Vec::new() }
    }
    pub fn with_capacity(n: usize) -> Self {
        Self { items: Vec::with_capacity(n) }
    }
    pub fn len(&self) -> usize {
        self.items.len()
    }
    pub fn is_empty(&self) -> bool {
        self.items.is_empty()
    }
    fn pos<Q: ?Sized + PartialEq>(&self, k: &Q) -> Option<usize>
    where
        K: Borrow<Q>,
    {
        let mut i = 0;
        while i < self.items.len() {
            if self.items[i].0.borrow() == k {
                return Some(i);
            }
            i += 1;
        }
        None
    }
    pub fn get<Q: ?Sized + PartialEq>(&self, k: &Q) -> Option<&V>
    where
        K: Borrow<Q>,
    {
        match self.pos(k) {
            Some(i) => Some(&self.items[i].1),
            None => None,
        }
    }
    pub fn get_mut<Q: ?Sized + PartialEq>(&mut self, k: &Q) -> Option<&mut V>
    where
        K: Borrow<Q>,
    {
        match self.pos(k) {
            Some(i) => Some(&mut self.items[i].1),
            None => None,
        }
    }
    pub fn contains_key<Q: ?Sized + PartialEq>(&self, k: &Q) -> bool
    where
        K: Borrow<Q>,
    {
        self.pos(k).is_some()
    }
    pub fn insert(&mut self, k: K, v: V) -> Option<V> {
        match self.pos(&k) {
            Some(i) => Some(std::mem::replace(&mut self.items[i].1, v)),
            None => {
                self.items.push((k, v));
                None
            }
        }
    }
    pub fn remove<Q: ?Sized + PartialEq>(&mut self, k: &Q) -> Option<V>
    where
        K: Borrow<Q>,
    {
        match self.pos(k) {
            Some(i) => Some(self.items.remove(i).1),
            None => None,
        }
    }
    pub fn iter(&self) -> std::iter::Map<std::slice::Iter<'_, (K, V)>, fn(&(K, V)) -> (&K, &V)> {
        fn f<K, V>(kv: &(K, V)) -> (&K, &V) {
            (&kv.0, &kv.1)
        }
        self.items.iter().map(f::<K, V> as fn(&(K, V)) -> (&K, &V))
    }
    pub fn iter_mut(
        &mut self,
    ) -> std::iter::Map<std::slice::IterMut<'_, (K, V)>, fn(&mut (K, V)) -> (&K, &mut V)> {
        fn f<K, V>(kv: &mut (K, V)) -> (&K, &mut V) {
            (&kv.0, &mut kv.1)
        }
        self.items.iter_mut().map(f::<K, V> as fn(&mut (K, V)) -> (&K, &mut V))
    }
    pub fn values(&self) -> std::iter::Map<std::slice::Iter<'_, (K, V)>, fn(&(K, V)) -> &V> {
        fn f<K, V>(kv: &(K, V)) -> &V {
            &kv.1
        }
        self.items.iter().map(f::<K, V> as fn(&(K, V)) -> &V)
    }
    pub fn values_mut(
        &mut self,
    ) -> std::iter::Map<std::slice::IterMut<'_, (K, V)>, fn(&mut (K, V)) -> &mut V> {
        fn f<K, V>(kv: &mut (K, V)) -> &mut V {
            &mut kv.1
        }
        self.items.iter_mut().map(f::<K, V> as fn(&mut (K, V)) -> &mut V)
    }
    pub fn keys(&self) -> std::iter::Map<std::slice::Iter<'_, (K, V)>, fn(&(K, V)) -> &K> {
        fn f<K, V>(kv: &(K, V)) -> &K {
            &kv.0
        }
        self.items.iter().map(f::<K, V> as fn(&(K, V)) -> &K)
    }
    pub fn drain(&mut self) -> std::vec::Drain<'_, (K, V)> {
        self.items.drain(..)
    }
    pub fn clear(&mut self) {
        self.items.clear()
    }
    pub fn retain<F: FnMut(&K, &mut V) -> bool>(&mut self, mut f: F) {
        self.items.retain_mut(|kv| f(&kv.0, &mut kv.1))
    }
}

impl<K, V> IntoIterator for HashMap<K, V> {
    type Item = (K, V);
    type IntoIter = std::vec::IntoIter<(K, V)>;
    fn into_iter(self) -> Self::IntoIter {
        self.items.into_iter()
    }
}

impl<'a, K, V> IntoIterator for &'a HashMap<K, V> {
    type Item = (&'a K, &'a V);
    type IntoIter = std::iter::Map<std::slice::Iter<'a, (K, V)>, fn(&'a (K, V)) -> (&'a K, &'a V)>;
    fn into_iter(self) -> Self::IntoIter {
        fn f<K, V>(kv: &(K, V)) -> (&K, &V) {
            (&kv.0, &kv.1)
        }
        self.items.iter().map(f::<K, V> as fn(&'a (K, V)) -> (&'a K, &'a V))
    }
}

impl<K: PartialEq, V, const N: usize> From<[(K, V); N]> for HashMap<K, V> {
    fn from(arr: [(K, V); N]) -> Self {
        let mut m = Self::with_capacity(N);
        for (k, v) in arr {
            m.insert(k, v);
        }
        m
    }
}

impl<K: PartialEq, V> FromIterator<(K, V)> for HashMap<K, V> {
    fn from_iter<I: IntoIterator<Item = (K, V)>>(it: I) -> Self {
        let mut m = Self::new();
        for (k, v) in it {
            m.insert(k, v);
        }
        m
    }
}

impl<K: PartialEq + Borrow<Q>, Q: ?Sized + PartialEq, V> std::ops::Index<&Q> for HashMap<K, V> {
    type Output = V;
    fn index(&self, k: &Q) -> &V {
        self.get(k).expect("no entry found for key")
    }
}

#[derive(Clone, Debug)]
pub struct HashSet<K> {
    items: Vec<K>,
}

impl<K> Default for HashSet<K> {
    fn default() -> Self {
        Self { items: Vec::new() }
    }
}

impl<K: PartialEq> HashSet<K> {
    pub fn new() -> Self {
        Self { items: Vec::new() }
    }
    pub fn contains<Q: ?Sized + PartialEq>(&self, k: &Q) -> bool
    where
        K: Borrow<Q>,
    {
        let mut i = 0;
        while i < self.items.len() {
            if self.items[i].borrow() == k {
                return true;
            }
            i += 1;
        }
        false
    }
    pub fn insert(&mut self, k: K) -> bool {
        if self.contains(&k) {
            false
        } else {
            self.items.push(k);
            true
        }
    }
    pub fn len(&self) -> usize {
        self.items.len()
    }
    pub fn is_empty(&self) -> bool {
        self.items.is_empty()
    }
    pub fn clear(&mut self) {
        self.items.clear()
    }
    pub fn remove<Q: ?Sized + PartialEq>(&mut self, k: &Q) -> bool
    where
        K: Borrow<Q>,
    {
        let mut i = 0;
        while i < self.items.len() {
            if self.items[i].borrow() == k {
                self.items.remove(i);
                return true;
            }
            i += 1;
        }
        false
    }
    pub fn iter(&self) -> std::slice::Iter<'_, K> {
        self.items.iter()
    }
    pub fn extend<I: IntoIterator<Item = K>>(&mut self, it: I) {
        for k in it {
            self.insert(k);
        }
    }
    /// elements of self that are not in other (a Vec-backed iterator: no borrow of a closure type)
    pub fn difference<'a>(&'a self, other: &'a HashSet<K>) -> std::vec::IntoIter<&'a K> {
        let mut v = Vec::new();
        for k in self.items.iter() {
            if !other.contains(k) {
                v.push(k);
            }
        }
        v.into_iter()
    }
}

impl<K> IntoIterator for HashSet<K> {
    type Item = K;
    type IntoIter = std::vec::IntoIter<K>;
    fn into_iter(self) -> Self::IntoIter {
        self.items.into_iter()
    }
}

impl<'a, K> IntoIterator for &'a HashSet<K> {
    type Item = &'a K;
    type IntoIter = std::slice::Iter<'a, K>;
    fn into_iter(self) -> Self::IntoIter {
        self.items.iter()
    }
}

impl<K: PartialEq> FromIterator<K> for HashSet<K> {
    fn from_iter<I: IntoIterator<Item = K>>(it: I) -> Self {
        let mut s = Self::new();
        for k in it {
            s.insert(k);
        }
        s
    }
}
