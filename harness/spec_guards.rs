//! inject: src/debugger/variable/value/specialization/mod.rs
//
// C08 — lengths and capacities read from debuggee memory (uninitialised String / Vec / &str hold
// arbitrary bit patterns) are restricted before they size a read.  parse_str_inner, parse_string_inner
// and parse_vector_inner all do `read_memory_by_pid(pid, ptr, guard_len(len) as usize [* el_size])`;
// the harness runs exactly that composition with the length symbolic.
use super::*;
use nix::libc::c_long;
use nix::unistd::Pid;
use std::ffi::c_void;

macro_rules! bsv {
    ($c:expr, $m:literal) => {
        assert!($c, concat!("BSV: ", $m))
    };
}

//@ harness: c08_guard_domain
//@ property: C08
//@ obligation: C08 length guards
//@ tier: quick
//@ encodes: guard_len, guard_cap
//@ symbolic: the length / capacity as read from debuggee memory (any i64, i.e. any 8 bytes)
//@ bounds: loop-free
//@ oracle: the restricted value, used as a size (`as usize`, as every caller does), never exceeds the documented guard of 10 000 elements; values inside the guard pass unchanged
//@ timeout: 300
#[kani::proof]
fn c08_guard_domain() {
    let x: i64 = kani::any();
    let l = guard_len(x);
    let c = guard_cap(x);
    if x >= 0 && x <= 10_000 {
        bsv!(l == x && c == x, "a plausible length passes unchanged");
    }
    bsv!(l as usize <= 10_000, "a length used as a read size never exceeds the guard (garbage with the top bit set included)");
    bsv!(c as usize <= 10_000, "a capacity used as a size never exceeds the guard");
    kani::cover!(x < 0, "garbage length with the top bit set");
    kani::cover!(x > 10_000, "implausibly large length");
    kani::cover!(true, "BSV-END");
}

/// the string's buffer in the debuggee: a real harness allocation, because read_memory_by_pid advances a pointer
/// made from the address (Kani prunes paths that do arithmetic on pointers outside any allocation)
static mut BUF: [u8; 16] = [0; 16];
static mut WORD: c_long = 0;
fn base() -> usize {
    std::ptr::addr_of!(BUF) as usize
}
fn stub_read(_pid: Pid, addr: *mut c_void) -> nix::Result<c_long> {
    let a = addr as usize;
    if a < base() || a >= base() + 16 {
        return Err(nix::errno::Errno::EIO);
    }
    Ok(unsafe { WORD })
}

//@ harness: c08_guarded_string_read
//@ property: C08
//@ obligation: C08 length guards
//@ tier: quick
//@ encodes: guard_len composed with debugger::read_memory_by_pid exactly as parse_string_inner / parse_str_inner do
//@ symbolic: the `len` field of a String whose memory holds arbitrary bytes: any i64 <= 8 (all negative values, i.e. every bit pattern with the top bit set, and the lengths of at most one ptrace word)
//@ bounds: lengths above 8 bytes are outside this harness (the read loop is decided under C15); unwind 3 / take loop 10
//@ oracle: interpreting garbage either succeeds or yields an error: no panic (capacity overflow) and no allocation sized by the garbage
//@ stubs: nix::sys::ptrace::read -> one word of symbolic memory, EIO outside 16 bytes
//@ timeout: 900
#[kani::proof]
#[kani::stub(nix::sys::ptrace::read, stub_read)]
#[kani::unwind(10)]
fn c08_guarded_string_read() {
    unsafe { WORD = kani::any() };
    let len: i64 = kani::any();
    kani::assume(len <= 8);
    let n = guard_len(len) as usize;
    let r = debugger::read_memory_by_pid(Pid::from_raw(7), base(), n);
    if let Ok(v) = &r {
        bsv!(v.len() <= 10_000, "what was read is within the guard");
    }
    kani::cover!(len < 0, "negative length field");
    kani::cover!(len == 8 && r.is_ok(), "a full word read");
    kani::cover!(true, "BSV-END");
    std::mem::forget(r);
}
