//! inject: src/dap/yadap/session/control.rs
//! t7: src/dap/yadap/session/mod.rs, src/dap/yadap/session/breakpoint.rs, src/dap/yadap/session/control.rs, src/dap/yadap/session/other.rs, src/dap/yadap/session/frame.rs
//
// C13 — hit bookkeeping: which breakpoint record a stop address belongs to, and the hit counter
// that hitCondition is compared with; condition truthiness of literals.
use super::*;
use crate::dap::transport::DapTransport;
use crate::dap::yadap::session::breakpoint::BreakpointRecord;
use crate::debugger::address::{Address, GlobalAddress};
use crate::debugger::variable::dqe::LiteralOrWildcard;
use std::sync::{Arc, Mutex};

macro_rules! bsv {
    ($c:expr, $m:literal) => {
        assert!($c, concat!("BSV: ", $m))
    };
}

struct NullTransport;
impl DapTransport for NullTransport {
    fn read_message(&mut self) -> anyhow::Result<serde_json::Value> {
        Err(anyhow!("none"))
    }
    fn write_message(&mut self, _message: &serde_json::Value) -> anyhow::Result<()> {
        Ok(())
    }
}
fn fixed_random_state() -> std::hash::RandomState {
    unsafe { std::mem::transmute::<(u64, u64), std::hash::RandomState>((1u64, 2u64)) }
}
fn no_backtrace() -> std::backtrace::Backtrace {
    std::backtrace::Backtrace::disabled()
}

fn any_addr() -> Address {
    let v: usize = kani::any();
    if kani::any() {
        Address::Relocated(RelocatedAddress::from(v))
    } else {
        Address::Global(GlobalAddress::from(v))
    }
}
fn mk_record(id: i64, a: Address, b: Option<Address>, hits: u64) -> BreakpointRecord {
    let mut addresses = Vec::with_capacity(2);
    addresses.push(a);
    if let Some(b) = b {
        addresses.push(b);
    }
    BreakpointRecord { id, addresses, condition: None, hit_condition: None, log_message: None, hit_count: hits }
}

//@ harness: c13_record_lookup
//@ property: C13
//@ obligation: H-C13-c
//@ tier: quick
//@ encodes: DebugSession::{new, with_breakpoint_record_mut, record_breakpoint_hit}
//@ symbolic: addresses (value and Global/Relocated kind) of two function-breakpoint records (the first with two locations), one instruction-breakpoint record and one source-breakpoint record, their hit counters (full u64), the stop address
//@ bounds: 4 records: two function breakpoints (one with two locations), one instruction breakpoint, one source breakpoint under one path (instance); unwind 5
//@ oracle: the record charged is the one whose address list contains the stop address, compared with kind; exactly that record's hit_count grows by one (saturating) and the returned hit info carries its id and new count; no record matches => None and no counter changes
//@ stubs: HashMap/HashSet -> association list (T7, session files); Backtrace::capture -> disabled
//@ outside: more than one source path, how records get their addresses (Debugger::set_breakpoint_*), should_skip_breakpoint (needs a live Debugger)
//@ timeout: 1200
#[kani::proof]
#[kani::stub(std::backtrace::Backtrace::capture, no_backtrace)]
#[kani::stub(std::hash::RandomState::new, fixed_random_state)]
#[kani::unwind(7)]
fn c13_record_lookup() {
    let io: Arc<Mutex<dyn DapTransport>> = Arc::new(Mutex::new(NullTransport));
    let mut s = super::super::DebugSession::new(io);
    let a: [Address; 5] = [any_addr(), any_addr(), any_addr(), any_addr(), any_addr()];
    // records are told apart by their locations: two records claiming the same location are outside this harness
    // (which of them would be charged is not specified)
    let mut i = 0;
    while i < 5 {
        let mut j = i + 1;
        while j < 5 {
            kani::assume(a[i] != a[j]);
            j += 1;
        }
        i += 1;
    }
    let h: [u64; 4] = kani::any();
    s.function_breakpoints.push(mk_record(11, a[0], Some(a[1]), h[0]));
    s.function_breakpoints.push(mk_record(12, a[2], None, h[1]));
    s.instruction_breakpoints.push(mk_record(13, a[3], None, h[2]));
    let mut by_src = Vec::with_capacity(1);
    by_src.push(mk_record(14, a[4], None, h[3]));
    s.breakpoints_by_source.insert(String::from("a.rs"), by_src);
    let stop = any_addr();
    let want = if stop == a[4] {
        3
    } else if stop == a[0] || stop == a[1] {
        0
    } else if stop == a[2] {
        1
    } else if stop == a[3] {
        2
    } else {
        4
    };
    let got = s.record_breakpoint_hit(stop);
    let now = [s.function_breakpoints[0].hit_count, s.function_breakpoints[1].hit_count, s.instruction_breakpoints[0].hit_count, s.breakpoints_by_source.get("a.rs").unwrap()[0].hit_count];
    match &got {
        None => {
            bsv!(want == 4, "a stop at a recorded location finds its record");
            bsv!(now[0] == h[0] && now[1] == h[1] && now[2] == h[2] && now[3] == h[3], "no counter changes when no record matches");
        }
        Some(info) => {
            bsv!(want < 4, "a stop elsewhere charges no record");
            if want < 4 {
                bsv!(info.id == 11 + want as i64, "the record charged is the one holding the stop address");
                bsv!(info.hit_count == h[want].saturating_add(1), "hit count grows by exactly one (saturating)");
                let mut i = 0;
                while i < 4 {
                    if i == want {
                        bsv!(now[i] == h[i].saturating_add(1), "the stored counter is the reported one");
                    } else {
                        bsv!(now[i] == h[i], "other records keep their counters");
                    }
                    i += 1;
                }
            }
        }
    }
    kani::cover!(want == 0 && stop == a[1] && stop != a[0], "second location of a multi-location record");
    kani::cover!(want == 2, "instruction breakpoint record");
    kani::cover!(want == 4, "no record");
    kani::cover!(want == 3, "source breakpoint record");
    kani::cover!(matches!((stop, a[2]), (Address::Global(x), Address::Relocated(y)) if usize::from(x) == usize::from(y)), "same number, different address kind");
    kani::cover!(true, "BSV-END");
    std::mem::forget(got);
    std::mem::forget(s);
}

//@ harness: c13_literal_truthy
//@ property: C13
//@ obligation: H-C13-b
//@ tier: quick
//@ encodes: DebugSession::literal_truthy
//@ symbolic: literal kind and payload (i64, usize, bool, f64, string empty / non-empty, array empty / non-empty)
//@ bounds: loop-free
//@ oracle: a condition that is the literal 0, 0x0, 0.0, false, "" or {} does not hold; every other literal holds
//@ outside: conditions that are data queries (need a live Debugger)
//@ timeout: 600
#[kani::proof]
#[kani::unwind(4)]
fn c13_literal_truthy() {
    let k: u8 = kani::any();
    kani::assume(k < 6);
    let i: i64 = kani::any();
    let u: usize = kani::any();
    let b: bool = kani::any();
    let f: f64 = kani::any();
    let nonempty: bool = kani::any();
    let (lit, want) = match k {
        0 => (Literal::Int(i), i != 0),
        1 => (Literal::Address(u), u != 0),
        2 => (Literal::Bool(b), b),
        3 => (Literal::Float(f), !(f == 0.0)),
        4 => (Literal::String(if nonempty { String::from("x") } else { String::new() }), nonempty),
        _ => {
            let mut v = Vec::with_capacity(1);
            if nonempty {
                v.push(LiteralOrWildcard::Wildcard);
            }
            (Literal::Array(v.into_boxed_slice()), nonempty)
        }
    };
    let got = super::super::DebugSession::literal_truthy(&lit);
    bsv!(got == want, "zero / false / empty literals do not hold, everything else does");
    kani::cover!(k == 3 && f.is_nan(), "NaN condition");
    kani::cover!(k == 3 && f == 0.0 && f.is_sign_negative(), "negative zero");
    kani::cover!(k == 0 && i == 0, "integer zero");
    kani::cover!(k == 5 && !nonempty, "empty array");
    kani::cover!(true, "BSV-END");
    std::mem::forget(lit);
}
