//! inject: src/debugger/debugee/dwarf/type.rs
//
// C08 — "while interpreting debuggee data the debugger never reads outside the bytes it fetched":
// the byte window of a structure member inside the bytes fetched for its parent.
use super::*;
use crate::debugger::debugee::dwarf::unit::DieAddr;
use std::mem::MaybeUninit;

macro_rules! bsv {
    ($c:expr, $m:literal) => {
        assert!($c, concat!("BSV: ", $m))
    };
}

static mut MEMBER_SIZE: u64 = 0;
fn stub_size(_this: &ComplexType, _evcx: &EvaluationContext, _typ: TypeId) -> Option<u64> {
    Some(unsafe { MEMBER_SIZE })
}

/// cut: the DWARF expression evaluator behind MemberLocation::Expr (not reached by this harness; its code trips an
/// internal error of the Kani compiler when left reachable)
fn stub_base_addr(_this: &MemberLocationExpression, _evcx: &EvaluationContext, entity_addr: usize) -> Result<usize, Error> {
    Ok(entity_addr)
}

//@ harness: c08_member_within_parent
//@ property: C08
//@ obligation: C08 unchecked reads
//@ tier: quick
//@ encodes: StructureMember::value (MemberLocation::Offset)
//@ symbolic: the 8 bytes fetched for the parent, the member's DW_AT_data_member_location (any offset in -16..24), the member type's byte size (0..16), the parent's address
//@ bounds: parent data of 8 bytes (instance: what a register location yields); loop-free
//@ oracle: a member is handed out only as a window inside the bytes fetched for its parent (offset >= 0 and offset + size <= fetched length); anything else (struct larger than the register it lives in, inconsistent or hostile DWARF) yields no data instead of a window onto the debugger's own memory; the window's bytes are the parent's bytes at that offset and its address is parent address + offset
//@ stubs: ComplexType::type_size_in_bytes -> the symbolic member size (the type graph is not needed for the window arithmetic); cut: MemberLocationExpression::base_addr (not reached)
//@ outside: MemberLocation::Expr (needs the DWARF expression evaluator)
//@ timeout: 900
#[kani::proof]
#[kani::stub(ComplexType::type_size_in_bytes, stub_size)]
#[kani::stub(MemberLocationExpression::base_addr, stub_base_addr)]
#[kani::unwind(10)]
fn c08_member_within_parent() {
    let parent: [u8; 8] = kani::any();
    let paddr: usize = kani::any();
    kani::assume(paddr >= 0x1000 && paddr < 1 << 47); // a user-space address
    let mut pv = Vec::with_capacity(8);
    let mut i = 0;
    while i < 8 {
        pv.push(parent[i]);
        i += 1;
    }
    let base = ObjectBinaryRepr { raw_data: bytes::Bytes::from(pv), address: Some(paddr), size: 8 };
    let off: i64 = kani::any();
    kani::assume(off >= -16 && off <= 24);
    let size: u64 = kani::any();
    kani::assume(size <= 16);
    unsafe { MEMBER_SIZE = size };
    let m = StructureMember {
        in_struct_location: Some(MemberLocation::Offset(off)),
        name: None,
        type_ref: Some(DieAddr::Unit(gimli::UnitOffset(1))),
    };
    let evcx = MaybeUninit::<EvaluationContext>::uninit();
    let ty = MaybeUninit::<ComplexType>::uninit();
    let r = m.value(unsafe { &*evcx.as_ptr() }, unsafe { &*ty.as_ptr() }, &base);
    let inside = off >= 0 && (off as u64) + size <= 8;
    match &r {
        Some(d) => {
            bsv!(inside, "a member that does not lie inside the bytes fetched for its parent yields no data");
            if inside {
                bsv!(d.size == size as usize && d.raw_data.len() == size as usize, "the window has the member's size");
                bsv!(d.address == Some(paddr + off as usize), "the member's address is parent address + offset");
                if size > 0 {
                    bsv!(d.raw_data[0] == parent[off as usize], "the window starts at the member's offset");
                    bsv!(d.raw_data[size as usize - 1] == parent[off as usize + size as usize - 1], "and ends inside the parent");
                }
            }
        }
        None => bsv!(!inside, "a member inside its parent is handed out"),
    }
    kani::cover!(inside && off == 4 && size == 4, "second half of an 8-byte parent");
    kani::cover!(!inside && off == 8, "member right behind the fetched bytes (16-byte struct in one register)");
    kani::cover!(off < 0, "negative offset");
    kani::cover!(true, "BSV-END");
    std::mem::forget(r);
    std::mem::forget(base);
}
