//! inject: src/debugger/debugee/dwarf/eval.rs
//
// C19-b — values kept in registers by optimised code are read from the right register: the piece
// reader used for DW_OP_reg* locations.  Oracle: System V AMD64 psABI DWARF register numbering.
use super::*;
use nix::libc::user_regs_struct;
use std::mem::MaybeUninit;

macro_rules! bsv {
    ($c:expr, $m:literal) => {
        assert!($c, concat!("BSV: ", $m))
    };
}

static mut REGS: Option<user_regs_struct> = None;
fn stub_getregs(_pid: Pid) -> nix::Result<user_regs_struct> {
    Ok(unsafe { REGS.unwrap() })
}
/// frame 0: the registers of the selected frame are the thread's current registers
fn stub_restore(_this: &Debugee, _pid: Pid, _registers: &mut DwarfRegisterMap, _frame_num: u32) -> Result<(), Error> {
    Ok(())
}
fn no_backtrace() -> std::backtrace::Backtrace {
    std::backtrace::Backtrace::disabled()
}

//@ harness: c19_register_piece
//@ property: C19
//@ obligation: H-C19-b
//@ tier: quick
//@ encodes: eval::read_register, DwarfRegisterMap::{from(RegisterMap), value}, RegisterMap::{current, from(user_regs_struct)}
//@ symbolic: the 17 general registers rax..r15 and rip, the DWARF register number 0..16, piece size 1..8 bytes, bit offset in {0, 8, 16, 32}
//@ bounds: frame 0 (registers of the selected frame = current registers); unwind 160 (SmallVec construction of the DWARF map)
//@ oracle: psABI figure 3.36: 0 rax, 1 rdx, 2 rcx, 3 rbx, 4 rsi, 5 rdi, 6 rbp, 7 rsp, 8-15 r8-r15, 16 return address (rip); the piece is the low `size` bytes of (that register >> offset)
//@ stubs: ptrace::getregs -> static register file; Debugee::restore_registers_at_frame -> identity (frame 0); Backtrace::capture
//@ outside: register restoration for outer frames (CFI), location lists, which DIE a name resolves to
//@ timeout: 1800
#[kani::proof]
#[kani::stub(nix::sys::ptrace::getregs, stub_getregs)]
#[kani::stub(Debugee::restore_registers_at_frame, stub_restore)]
#[kani::stub(std::backtrace::Backtrace::capture, no_backtrace)]
#[kani::unwind(160)]
fn c19_register_piece() {
    let mut r: user_regs_struct = unsafe { std::mem::zeroed() };
    let g: [u64; 17] = kani::any();
    r.rax = g[0];
    r.rdx = g[1];
    r.rcx = g[2];
    r.rbx = g[3];
    r.rsi = g[4];
    r.rdi = g[5];
    r.rbp = g[6];
    r.rsp = g[7];
    r.r8 = g[8];
    r.r9 = g[9];
    r.r10 = g[10];
    r.r11 = g[11];
    r.r12 = g[12];
    r.r13 = g[13];
    r.r14 = g[14];
    r.r15 = g[15];
    r.rip = g[16];
    unsafe { REGS = Some(r) };
    let n: u16 = kani::any();
    kani::assume(n <= 16);
    let size: usize = kani::any();
    kani::assume(size >= 1 && size <= 8);
    let off: u64 = kani::any();
    kani::assume(off == 0 || off == 8 || off == 16 || off == 32);
    let fake = MaybeUninit::<Debugee>::uninit();
    let debugee: &Debugee = unsafe { &*fake.as_ptr() };
    let ecx = ExplorationContext::new_non_running(Pid::from_raw(7));
    let got = read_register(debugee, &ecx, Register(n), size, off);
    bsv!(got.is_ok(), "a general register can be read");
    if let Ok(bytes) = &got {
        bsv!(bytes.len() == size, "the piece has the requested size");
        let want = (g[n as usize] >> off).to_ne_bytes();
        let mut i = 0;
        while i < 8 {
            if i < size {
                bsv!(bytes[i] == want[i], "the piece holds the bytes of the right machine register");
            }
            i += 1;
        }
    }
    kani::cover!(n == 5 && size == 4, "rdi, 4 bytes");
    kani::cover!(n == 1 && off == 32, "upper half of rdx");
    kani::cover!(true, "BSV-END");
    std::mem::forget(got);
}

//@ harness: c19_register_piece_offsets
//@ property: C19
//@ obligation: H-C19-b
//@ tier: thorough
//@ encodes: eval::read_register, DwarfRegisterMap::{from(RegisterMap), value}, RegisterMap::{current, from(user_regs_struct)}
//@ symbolic: the 17 general registers rax..r15 and rip, the DWARF register number 0..16, piece size 1..8 bytes, any bit offset 0..63
//@ bounds: frame 0 (registers of the selected frame = current registers); unwind 160 (SmallVec construction of the DWARF map)
//@ oracle: psABI figure 3.36: 0 rax, 1 rdx, 2 rcx, 3 rbx, 4 rsi, 5 rdi, 6 rbp, 7 rsp, 8-15 r8-r15, 16 return address (rip); the piece is the low `size` bytes of (that register >> offset)
//@ stubs: ptrace::getregs -> static register file; Debugee::restore_registers_at_frame -> identity (frame 0); Backtrace::capture
//@ outside: register restoration for outer frames (CFI), location lists, which DIE a name resolves to
//@ timeout: 1800
#[kani::proof]
#[kani::stub(nix::sys::ptrace::getregs, stub_getregs)]
#[kani::stub(Debugee::restore_registers_at_frame, stub_restore)]
#[kani::stub(std::backtrace::Backtrace::capture, no_backtrace)]
#[kani::unwind(160)]
fn c19_register_piece_offsets() {
    let mut r: user_regs_struct = unsafe { std::mem::zeroed() };
    let g: [u64; 17] = kani::any();
    r.rax = g[0];
    r.rdx = g[1];
    r.rcx = g[2];
    r.rbx = g[3];
    r.rsi = g[4];
    r.rdi = g[5];
    r.rbp = g[6];
    r.rsp = g[7];
    r.r8 = g[8];
    r.r9 = g[9];
    r.r10 = g[10];
    r.r11 = g[11];
    r.r12 = g[12];
    r.r13 = g[13];
    r.r14 = g[14];
    r.r15 = g[15];
    r.rip = g[16];
    unsafe { REGS = Some(r) };
    let n: u16 = kani::any();
    kani::assume(n <= 16);
    let size: usize = kani::any();
    kani::assume(size >= 1 && size <= 8);
    let off: u64 = kani::any();
    kani::assume(off < 64);
    let fake = MaybeUninit::<Debugee>::uninit();
    let debugee: &Debugee = unsafe { &*fake.as_ptr() };
    let ecx = ExplorationContext::new_non_running(Pid::from_raw(7));
    let got = read_register(debugee, &ecx, Register(n), size, off);
    bsv!(got.is_ok(), "a general register can be read");
    if let Ok(bytes) = &got {
        bsv!(bytes.len() == size, "the piece has the requested size");
        let want = (g[n as usize] >> off).to_ne_bytes();
        let mut i = 0;
        while i < 8 {
            if i < size {
                bsv!(bytes[i] == want[i], "the piece holds the bytes of the right machine register");
            }
            i += 1;
        }
    }
    kani::cover!(n == 5 && size == 4, "rdi, 4 bytes");
    kani::cover!(n == 1 && off == 63, "top bit of rdx");
    kani::cover!(true, "BSV-END");
    std::mem::forget(got);
}
