//! inject: src/debugger/watchpoint.rs
//! t7: src/debugger/debugee/tracee.rs
//
// C14 — debug registers always encode exactly the active watchpoints.
// Environment (T1): the u_debugreg area of two threads (pids 7 = process, 8) is a static array;
// ptrace::read_user / write_user are stubbed onto it.  Oracle (T6): Intel SDM Vol.3B 18.2.4.
use super::*;
use crate::debugger::register::debug::{DebugControlRegister, DebugStatusRegister};
use nix::libc::c_long;
use std::ffi::c_void;

macro_rules! bsv {
    ($c:expr, $m:literal) => {
        assert!($c, concat!("BSV: ", $m))
    };
}

const NTHREADS: usize = 3;
static mut DREGS: [[usize; 8]; NTHREADS] = [[0; 8]; NTHREADS];
/// number of write_user calls (to show "refused without side effects")
static mut WRITES: usize = 0;

fn tidx(pid: Pid) -> Option<usize> {
    match pid.as_raw() {
        7 => Some(0),
        8 => Some(1),
        9 => Some(2),
        _ => None,
    }
}
fn dr_index(off: usize) -> Option<usize> {
    let base = std::mem::offset_of!(nix::libc::user, u_debugreg);
    if off < base || (off - base) % 8 != 0 || (off - base) / 8 >= 8 {
        return None;
    }
    Some((off - base) / 8)
}
fn stub_read_user(pid: Pid, offset: *mut c_void) -> nix::Result<c_long> {
    match (tidx(pid), dr_index(offset as usize)) {
        (Some(t), Some(i)) => Ok(unsafe { DREGS[t][i] } as c_long),
        _ => Err(nix::errno::Errno::EIO),
    }
}
unsafe fn stub_write_user(pid: Pid, offset: *mut c_void, data: *mut c_void) -> nix::Result<()> {
    match (tidx(pid), dr_index(offset as usize)) {
        (Some(t), Some(i)) => {
            unsafe {
                DREGS[t][i] = data as usize;
                WRITES += 1;
            }
            Ok(())
        }
        _ => Err(nix::errno::Errno::EIO),
    }
}

fn dr7_of(c: &DebugControlRegister) -> usize {
    unsafe { std::mem::transmute_copy::<DebugControlRegister, usize>(c) }
}
fn dr6_of(c: &DebugStatusRegister) -> usize {
    unsafe { std::mem::transmute_copy::<DebugStatusRegister, usize>(c) }
}
fn mk_dr7(v: usize) -> DebugControlRegister {
    unsafe { std::mem::transmute_copy::<usize, DebugControlRegister>(&v) }
}
fn mk_dr6(v: usize) -> DebugStatusRegister {
    unsafe { std::mem::transmute_copy::<usize, DebugStatusRegister>(&v) }
}
fn any_slot() -> (usize, DebugRegisterNumber) {
    let s: usize = kani::any();
    kani::assume(s < 4);
    let dr = match s {
        0 => DebugRegisterNumber::DR0,
        1 => DebugRegisterNumber::DR1,
        2 => DebugRegisterNumber::DR2,
        _ => DebugRegisterNumber::DR3,
    };
    (s, dr)
}
/// SDM: LEN encoding for a watch length in bytes
fn sdm_len(bytes: u8) -> usize {
    match bytes {
        1 => 0b00,
        2 => 0b01,
        4 => 0b11,
        _ => 0b10,
    }
}
fn any_size() -> (u8, BreakSize) {
    let n: u8 = kani::any();
    kani::assume(n == 1 || n == 2 || n == 4 || n == 8);
    let bs = match BreakSize::try_from(n) {
        Ok(b) => b,
        Err(e) => {
            std::mem::forget(e);
            bsv!(false, "1/2/4/8 are accepted watch lengths");
            unreachable!()
        }
    };
    (n, bs)
}
fn any_cond() -> (usize, BreakCondition) {
    if kani::any() {
        (0b01, BreakCondition::DataWrites)
    } else {
        (0b11, BreakCondition::DataReadsWrites)
    }
}

//@ harness: c14_dr7_set_dr
//@ property: C14
//@ obligation: H-C14-a
//@ tier: quick
//@ encodes: DebugControlRegister::{set_dr, dr_enabled}
//@ symbolic: full 64-bit DR7 image, slot 0..3, global flag, enable flag
//@ bounds: loop-free (iter().all over 4 slots, unwind 6)
//@ oracle: SDM: L_i = bit 2i, G_i = bit 2i+1, LE = bit 8, GE = bit 9; enable sets the slot bit and the matching exact-enable bit; disable clears the slot bit and clears LE/GE iff no slot of that kind stays enabled; every other bit unchanged
//@ timeout: 300
#[kani::proof]
#[kani::unwind(6)]
fn c14_dr7_set_dr() {
    let img: usize = kani::any();
    let (s, dr) = any_slot();
    let global: bool = kani::any();
    let enable: bool = kani::any();
    let mut c = mk_dr7(img);
    c.set_dr(dr, global, enable);
    let out = dr7_of(&c);
    let bit = if global { 2 * s + 1 } else { 2 * s };
    let exact = if global { 9 } else { 8 };
    let kind_mask: usize = if global { 0b1010_1010 } else { 0b0101_0101 };
    bsv!(((out >> bit) & 1 == 1) == enable, "slot enable bit is at 2i (local) / 2i+1 (global)");
    if enable {
        bsv!((out >> exact) & 1 == 1, "LE/GE set when a slot is enabled");
    } else if out & kind_mask == 0 {
        bsv!((out >> exact) & 1 == 0, "LE/GE cleared when the last slot of that kind is disabled");
    } else {
        bsv!((out >> exact) & 1 == (img >> exact) & 1, "LE/GE kept while another slot stays enabled");
    }
    let touched: usize = (1 << bit) | (1 << exact);
    bsv!(out & !touched == img & !touched, "no other DR7 bit changes");
    // dr_enabled reads the same bit
    bsv!(c.dr_enabled(dr, global) == enable, "dr_enabled agrees with set_dr");
    kani::cover!(enable && s == 3 && global, "G3 enable");
    kani::cover!(!enable && out & kind_mask != 0, "disable with others live");
    kani::cover!(true, "BSV-END");
}

//@ harness: c14_dr7_configure_bp
//@ property: C14
//@ obligation: H-C14-a
//@ tier: quick
//@ encodes: DebugControlRegister::configure_bp, BreakSize::try_from, BreakCondition / BreakSize discriminants
//@ symbolic: full 64-bit DR7 image, slot, length in {1,2,4,8}, condition
//@ bounds: loop-free
//@ oracle: SDM: R/W_i = bits 16+4i..17+4i (01 write, 11 read/write), LEN_i = bits 18+4i..19+4i (00=1, 01=2, 11=4, 10=8); all other bits unchanged
//@ timeout: 300
#[kani::proof]
#[kani::unwind(4)]
fn c14_dr7_configure_bp() {
    let img: usize = kani::any();
    let (s, dr) = any_slot();
    let (n, size) = any_size();
    let (rw, cond) = any_cond();
    let mut c = mk_dr7(img);
    c.configure_bp(dr, cond, size);
    let out = dr7_of(&c);
    bsv!((out >> (16 + 4 * s)) & 0b11 == rw, "R/W field");
    bsv!((out >> (18 + 4 * s)) & 0b11 == sdm_len(n), "LEN field");
    let mask: usize = 0xF << (16 + 4 * s);
    bsv!(out & !mask == img & !mask, "no other DR7 bit changes");
    kani::cover!(n == 8 && s == 2, "8 bytes in slot 2");
    kani::cover!(true, "BSV-END");
}

//@ harness: c14_breaksize_domain
//@ property: C14
//@ obligation: H-C14-a
//@ tier: quick
//@ encodes: BreakSize::try_from
//@ symbolic: the requested length (u8)
//@ bounds: loop-free
//@ oracle: only 1, 2, 4, 8 are accepted
//@ timeout: 300
#[kani::proof]
fn c14_breaksize_domain() {
    let n: u8 = kani::any();
    let r = BreakSize::try_from(n);
    let ok = n == 1 || n == 2 || n == 4 || n == 8;
    bsv!(r.is_ok() == ok, "exactly 1/2/4/8 accepted");
    if let Ok(b) = &r {
        bsv!(*b as usize == sdm_len(n), "discriminant is the SDM LEN encoding");
    }
    kani::cover!(r.is_err(), "rejected length");
    kani::cover!(true, "BSV-END");
    std::mem::forget(r);
}

//@ harness: c14_dr6_detect_and_flush
//@ property: C14
//@ obligation: H-C14-a
//@ tier: quick
//@ encodes: DebugStatusRegister::{detect_and_flush, trap0..trap3}
//@ symbolic: full 64-bit DR6 image
//@ bounds: loop-free
//@ oracle: SDM: B_i = bit i; returns the lowest set B_i and clears exactly that bit, None iff B0..B3 clear
//@ timeout: 300
#[kani::proof]
fn c14_dr6_detect_and_flush() {
    let img: usize = kani::any();
    let mut r = mk_dr6(img);
    let got = r.detect_and_flush();
    let out = dr6_of(&r);
    let low = img & 0xF;
    match got {
        None => {
            bsv!(low == 0, "None only when no B bit is set");
            bsv!(out == img, "nothing flushed");
        }
        Some(d) => {
            let i = d as usize;
            bsv!(i < 4 && (img >> i) & 1 == 1, "reported slot was set");
            bsv!(low & ((1usize << i) - 1) == 0, "lowest set slot first");
            bsv!(out == img & !(1usize << i), "exactly that bit flushed");
        }
    }
    kani::cover!(matches!(got, Some(DebugRegisterNumber::DR3)), "DR3 hit");
    kani::cover!(true, "BSV-END");
}

// ---------------------------------------------------------------------------------------------
// slot machine: one step from an arbitrary invariant state
// ---------------------------------------------------------------------------------------------

/// arbitrary pre-state: both threads hold the same image (the invariant C14 states); DR7 is arbitrary
/// except that LE (bit 8) is set iff some L bit is set
fn any_state() -> [usize; 8] {
    let a: [usize; 4] = kani::any();
    let dr6: usize = kani::any();
    let dr7: usize = kani::any();
    let any_l = dr7 & 0b0101_0101 != 0;
    kani::assume(((dr7 >> 8) & 1 == 1) == any_l);
    let st = [a[0], a[1], a[2], a[3], 0, 0, dr6, dr7];
    unsafe {
        DREGS = [st, st, [0; 8]];
        WRITES = 0;
    }
    st
}
fn two_threads() -> TraceeCtl {
    let pids = [Pid::from_raw(7), Pid::from_raw(8)];
    TraceeCtl::new_external(Pid::from_raw(7), &pids)
}
fn image_of(st: &HardwareDebugState) -> [usize; 8] {
    [
        st.address_regs[0],
        st.address_regs[1],
        st.address_regs[2],
        st.address_regs[3],
        0,
        0,
        dr6_of(&st.dr6),
        dr7_of(&st.dr7),
    ]
}
fn same(a: &[usize; 8], b: &[usize; 8]) -> bool {
    a[0] == b[0] && a[1] == b[1] && a[2] == b[2] && a[3] == b[3] && a[6] == b[6] && a[7] == b[7]
}

//@ harness: c14_hw_enable_step
//@ property: C14
//@ obligation: H-C14-b
//@ tier: quick
//@ encodes: HardwareBreakpoint::{new, enable}, HardwareDebugState::{current, sync}, DebugControlRegister::{dr_enabled, configure_bp, set_dr}, TraceeCtl::{new_external, proc_pid, tracee_iter}
//@ symbolic: DR0-3, DR6, DR7 of the pre-state (any image with LE <=> some L bit), watched address (usize), length in {1,2,4,8}, condition
//@ bounds: 2 threads (pids 7, 8); one enable from an arbitrary invariant state (inductive step); unwind 6
//@ oracle: a free slot is chosen, never a live one (freed slots reusable); D[slot] = address, L set, R/W and LEN per SDM, LE set; every other field of DR0-3/DR6/DR7 unchanged; the same image is written to every thread; with four live slots the call is WatchpointLimitReached and every thread's debug registers are as before
//@ stubs: nix::sys::ptrace::read_user / write_user -> per-thread u_debugreg array (EIO outside it); std HashMap -> association list (T7, tracee.rs)
//@ assumes: pre-state: all threads hold the same debug-register image; LE <=> exists L_i
//@ timeout: 900
#[kani::proof]
#[kani::stub(nix::sys::ptrace::read_user, stub_read_user)]
#[kani::stub(nix::sys::ptrace::write_user, stub_write_user)]
#[kani::unwind(6)]
fn c14_hw_enable_step() {
    let pre = any_state();
    let ctl = two_threads();
    let addr: usize = kani::any();
    let (n, size) = any_size();
    let (rw, cond) = any_cond();
    let mut hw = HardwareBreakpoint::new(RelocatedAddress::from(addr), size, cond);
    let res = hw.enable(&ctl);
    let dr7 = pre[7];
    let all_live = dr7 & 0b0101_0101 == 0b0101_0101;
    let now = unsafe { DREGS };
    if all_live {
        bsv!(matches!(res, Err(Error::WatchpointLimitReached)), "fifth watchpoint refused");
        bsv!(same(&now[0], &pre) && same(&now[1], &pre), "refusal leaves every thread's debug registers as they were");
        bsv!(hw.register.is_none(), "refused breakpoint owns no slot");
    } else {
        bsv!(res.is_ok(), "enable succeeds while a slot is free");
        if let Ok(st) = &res {
            let img = image_of(st);
            // which free slot is chosen is the implementation's business; it must be one that was free
            let slot = hw.register.map(|r| r as usize).unwrap_or(9);
            bsv!(slot < 4, "breakpoint remembers its slot");
            if slot < 4 {
                bsv!((dr7 >> (2 * slot)) & 1 == 0, "the chosen slot was free (a live watchpoint is never overwritten)");
                bsv!(img[slot] == addr, "address register of the chosen slot");
                bsv!((img[7] >> (2 * slot)) & 1 == 1, "L bit of the chosen slot");
                bsv!((img[7] >> (16 + 4 * slot)) & 3 == rw, "R/W of the chosen slot");
                bsv!((img[7] >> (18 + 4 * slot)) & 3 == sdm_len(n), "LEN of the chosen slot");
                bsv!((img[7] >> 8) & 1 == 1, "LE set");
                let touched: usize = (1 << (2 * slot)) | (0xF << (16 + 4 * slot)) | (1 << 8);
                bsv!(img[7] & !touched == dr7 & !touched, "no other DR7 bit changes");
                let mut j = 0;
                while j < 4 {
                    if j != slot {
                        bsv!(img[j] == pre[j], "other address registers unchanged");
                    }
                    j += 1;
                }
                bsv!(img[6] == pre[6], "DR6 unchanged");
                bsv!(same(&now[0], &img), "image written to the process thread");
                bsv!(same(&now[1], &img), "image written to every other thread");
            }
            kani::cover!(slot == 3, "slot 3 chosen");
            kani::cover!(slot < 3 && dr7 & 0b0100_0000 != 0, "a freed slot below a live one is reused");
        }
    }
    kani::cover!(all_live, "all four slots live");
    kani::cover!(true, "BSV-END");
    std::mem::forget(res);
    std::mem::forget(ctl);
}

//@ harness: c14_hw_disable_step
//@ property: C14
//@ obligation: H-C14-b
//@ tier: quick
//@ encodes: HardwareBreakpoint::disable, HardwareDebugState::{current, sync}, DebugControlRegister::set_dr
//@ symbolic: pre-state image, the slot owned by the breakpoint being disabled
//@ bounds: 2 threads; one disable from an arbitrary invariant state; unwind 6
//@ oracle: L bit of the owned slot cleared, LE cleared iff no L bit remains, nothing else changes, image written to every thread, breakpoint forgets its slot
//@ stubs: ptrace::read_user / write_user -> model; HashMap -> T7
//@ assumes: pre-state: threads agree; the owned slot's L bit is set; LE <=> exists L_i
//@ timeout: 900
#[kani::proof]
#[kani::stub(nix::sys::ptrace::read_user, stub_read_user)]
#[kani::stub(nix::sys::ptrace::write_user, stub_write_user)]
#[kani::unwind(6)]
fn c14_hw_disable_step() {
    let pre = any_state();
    let (s, dr) = any_slot();
    kani::assume((pre[7] >> (2 * s)) & 1 == 1);
    let ctl = two_threads();
    let (_, size) = any_size();
    let (_, cond) = any_cond();
    let mut hw = HardwareBreakpoint::new(RelocatedAddress::from(pre[s]), size, cond);
    hw.register = Some(dr);
    let res = hw.disable(&ctl);
    bsv!(res.is_ok(), "disable succeeds");
    let now = unsafe { DREGS };
    if let Ok(st) = &res {
        let img = image_of(st);
        bsv!((img[7] >> (2 * s)) & 1 == 0, "no stale enable bit");
        let others = img[7] & 0b0101_0101 != 0;
        bsv!(((img[7] >> 8) & 1 == 1) == others, "LE <=> some slot still live");
        let touched: usize = (1 << (2 * s)) | (1 << 8);
        bsv!(img[7] & !touched == pre[7] & !touched, "no other DR7 bit changes");
        bsv!(img[0] == pre[0] && img[1] == pre[1] && img[2] == pre[2] && img[3] == pre[3], "address registers unchanged");
        bsv!(same(&now[0], &img) && same(&now[1], &img), "image written to every thread");
    }
    bsv!(hw.register.is_none(), "breakpoint forgets its slot");
    kani::cover!(pre[7] & 0b0101_0101 == 1 << (2 * s), "last live slot disabled");
    kani::cover!(true, "BSV-END");
    std::mem::forget(res);
    std::mem::forget(ctl);
}

//@ harness: c14_already_observed
//@ property: C14
//@ obligation: H-C14-b
//@ tier: quick
//@ encodes: HardwareBreakpoint::address_already_observed, HardwareDebugState::current
//@ symbolic: pre-state image, queried address
//@ bounds: 4 slots, unwind 6
//@ oracle: true iff some slot with its L bit set holds exactly that address (a stale address in a disabled slot does not count)
//@ stubs: ptrace::read_user -> model; HashMap -> T7
//@ timeout: 900
#[kani::proof]
#[kani::stub(nix::sys::ptrace::read_user, stub_read_user)]
#[kani::stub(nix::sys::ptrace::write_user, stub_write_user)]
#[kani::unwind(6)]
fn c14_already_observed() {
    let pre = any_state();
    let ctl = two_threads();
    let addr: usize = kani::any();
    let res = HardwareBreakpoint::address_already_observed(&ctl, RelocatedAddress::from(addr));
    let mut expect = false;
    let mut i = 0;
    while i < 4 {
        if (pre[7] >> (2 * i)) & 1 == 1 && pre[i] == addr {
            expect = true;
        }
        i += 1;
    }
    bsv!(matches!(res, Ok(b) if b == expect), "observed <=> a live slot holds the address");
    kani::cover!(expect, "address is watched");
    kani::cover!(!expect && (pre[0] == addr), "stale address in a disabled slot");
    kani::cover!(true, "BSV-END");
    std::mem::forget(res);
    std::mem::forget(ctl);
}

//@ harness: c14_new_thread_inherits
//@ property: C14
//@ obligation: H-C14-c
//@ tier: quick
//@ encodes: WatchpointRegistry::distribute_to_tracee, HardwareDebugState::sync
//@ symbolic: the debug-register image last written by the registry (DR0-3, DR6, DR7: any values), whether the registry has written one at all
//@ bounds: one newly created thread (pid 9) with zeroed debug registers; unwind 6
//@ oracle: a thread created later inherits the active watchpoint set: after distribution its DR0-3 and DR7 equal the image the other threads hold; with no watchpoint ever set nothing is written
//@ stubs: ptrace::write_user -> per-thread u_debugreg array
//@ outside: that tracer.rs calls distribute_to_tracee on PTRACE_EVENT_CLONE / PTRACE_EVENT_STOP (event handling, C09)
//@ timeout: 900
#[kani::proof]
#[kani::stub(nix::sys::ptrace::read_user, stub_read_user)]
#[kani::stub(nix::sys::ptrace::write_user, stub_write_user)]
#[kani::unwind(6)]
fn c14_new_thread_inherits() {
    let pre = any_state();
    let has_state: bool = kani::any();
    let state = if has_state {
        Some(HardwareDebugState { address_regs: [pre[0], pre[1], pre[2], pre[3]], dr6: mk_dr6(pre[6]), dr7: mk_dr7(pre[7]) })
    } else {
        None
    };
    let reg = WatchpointRegistry { watchpoints: Vec::new(), last_seen_state: state };
    let t = Tracee { number: 2, pid: Pid::from_raw(9), status: crate::debugger::debugee::tracee::TraceeStatus::Running };
    let r = reg.distribute_to_tracee(&t);
    bsv!(r.is_ok(), "distribution succeeds");
    let now = unsafe { DREGS };
    if has_state {
        bsv!(now[2][0] == pre[0] && now[2][1] == pre[1] && now[2][2] == pre[2] && now[2][3] == pre[3], "the new thread watches the same addresses");
        bsv!(now[2][7] == pre[7], "the new thread has the same control register (enable bits, R/W, LEN)");
    } else {
        bsv!(unsafe { WRITES } == 0, "without watchpoints the new thread is left alone");
    }
    bsv!(same(&now[0], &pre) && same(&now[1], &pre), "existing threads are not touched");
    kani::cover!(has_state && pre[7] & 0b0101_0101 == 0b0101_0101, "four live watchpoints inherited");
    kani::cover!(!has_state, "no watchpoint was ever set");
    kani::cover!(true, "BSV-END");
    std::mem::forget(r);
    std::mem::forget(reg);
}

//@ harness: c14_hw_enable_three_threads
//@ property: C14
//@ obligation: H-C14-b
//@ tier: thorough
//@ encodes: HardwareBreakpoint::{new, enable}, HardwareDebugState::{current, sync}, TraceeCtl::tracee_iter
//@ symbolic: pre-state image (all three threads agree), watched address, length, condition
//@ bounds: 3 threads (pids 7, 8, 9); one enable from an arbitrary invariant state; unwind 6
//@ oracle: as c14_hw_enable_step; the new image reaches every one of the three threads, a refusal touches none
//@ stubs: ptrace::read_user / write_user -> per-thread u_debugreg array; HashMap -> T7
//@ assumes: pre-state: all threads hold the same image; LE <=> exists L_i
//@ timeout: 1500
#[kani::proof]
#[kani::stub(nix::sys::ptrace::read_user, stub_read_user)]
#[kani::stub(nix::sys::ptrace::write_user, stub_write_user)]
#[kani::unwind(6)]
fn c14_hw_enable_three_threads() {
    let pre = any_state();
    unsafe { DREGS[2] = pre };
    let pids = [Pid::from_raw(7), Pid::from_raw(8), Pid::from_raw(9)];
    let ctl = TraceeCtl::new_external(Pid::from_raw(7), &pids);
    let addr: usize = kani::any();
    let (n, size) = any_size();
    let (rw, cond) = any_cond();
    let mut hw = HardwareBreakpoint::new(RelocatedAddress::from(addr), size, cond);
    let res = hw.enable(&ctl);
    let now = unsafe { DREGS };
    let full = pre[7] & 0b0101_0101 == 0b0101_0101;
    if full {
        bsv!(res.is_err(), "fifth watchpoint refused");
        bsv!(same(&now[0], &pre) && same(&now[1], &pre) && same(&now[2], &pre), "every thread untouched");
    } else {
        bsv!(res.is_ok(), "enable succeeds while a slot is free");
        if let Ok(st) = &res {
            let img = image_of(st);
            bsv!(same(&now[0], &img) && same(&now[1], &img) && same(&now[2], &img), "the same image is written to all three threads");
            let slot = hw.register.map(|r| r as usize).unwrap_or(9);
            bsv!(slot < 4 && img[slot] == addr && (img[7] >> (2 * slot)) & 1 == 1, "the chosen slot holds the address and is enabled");
            bsv!((img[7] >> (16 + 4 * slot)) & 3 == rw && (img[7] >> (18 + 4 * slot)) & 3 == sdm_len(n), "R/W and LEN of the chosen slot");
        }
    }
    kani::cover!(full, "all four slots live");
    kani::cover!(!full && pre[7] & 1 == 1, "slot 0 busy");
    kani::cover!(true, "BSV-END");
    std::mem::forget(res);
    std::mem::forget(ctl);
}
