//! inject: src/debugger/variable/value/parser.rs
//
// C06-a — byte-level scalar decoding: which Rust value the debugger shows for the bytes of a
// variable of base type (DW_ATE encoding, byte size, name).  Oracle: from_ne_bytes at that width
// and signedness.  C08: a value whose bytes are shorter than its type is never read past its end.
use super::*;
use crate::debugger::debugee::dwarf::NamespaceHierarchy;
use crate::debugger::debugee::dwarf::unit::DieAddr;

macro_rules! bsv {
    ($c:expr, $m:literal) => {
        assert!($c, concat!("BSV: ", $m))
    };
}

fn mk_type(encoding: gimli::DwAte, size: u64, name: Option<&str>) -> ScalarType {
    ScalarType {
        namespaces: NamespaceHierarchy::default(),
        name: name.map(|s| s.to_string()),
        byte_size: Some(size),
        encoding: Some(encoding),
    }
}
fn mk_data(bytes: &[u8; 16], n: usize, addr: usize) -> ObjectBinaryRepr {
    let mut v = Vec::with_capacity(16);
    let mut i = 0;
    while i < 16 {
        if i < n {
            v.push(bytes[i]);
        }
        i += 1;
    }
    ObjectBinaryRepr { raw_data: bytes::Bytes::from(v), address: Some(addr), size: n }
}
fn type_id() -> TypeId {
    DieAddr::Unit(gimli::UnitOffset(0x2a))
}
fn le<const W: usize>(b: &[u8; 16]) -> [u8; W] {
    let mut o = [0u8; W];
    let mut i = 0;
    while i < W {
        o[i] = b[i];
        i += 1;
    }
    o
}

/// one decode with a concrete type (the encoding must be concrete on each path: a symbolic DW_ATE makes CBMC
/// build every arm, including the char / UTF-8 validation one)
macro_rules! decode_is {
    ($p:expr, $b:expr, $addr:expr, $enc:expr, $size:literal, $name:expr, $variant:ident, $t:ty, $w:literal) => {{
        let ty = mk_type($enc, $size, $name);
        let v = $p.parse_scalar(Some(mk_data(&$b, $w, $addr)), type_id(), &ty);
        bsv!(v.raw_address == Some($addr), "the value carries the variable's address");
        bsv!(v.type_id == Some(type_id()), "the value carries its type id");
        bsv!(matches!(v.value, Some(SupportedScalar::$variant(x)) if x == <$t>::from_ne_bytes(le::<$w>(&$b))), "the value shown is the value the bytes hold, at the type's width and signedness");
        std::mem::forget(v);
        std::mem::forget(ty);
    }};
}

//@ harness: c06_scalar_decode_signed
//@ property: C06
//@ obligation: H-C06-a
//@ tier: quick
//@ encodes: ValueParser::parse_scalar, scalar_from_bytes (signed integer kinds), ScalarType::identity
//@ symbolic: the 16 data bytes, the variable's address; types i8, i16, i32, i64, isize, i128 as rustc emits them (instances, one call each)
//@ bounds: loop-free in the code under test; byte-copy and name-compare loops bounded at 18
//@ oracle: the value shown is from_ne_bytes of the first byte_size bytes, signed, tagged with the right kind (isize by name); the reported address is the variable's address
//@ assumes: the fetched bytes are as long as the type's byte_size (DWARF-consistent)
//@ outside: bool and char (invalid bit patterns are C08's subject), type-graph construction, rendering
//@ timeout: 1200
#[kani::proof]
#[kani::unwind(18)]
fn c06_scalar_decode_signed() {
    let b: [u8; 16] = kani::any();
    let addr: usize = kani::any();
    let p = ValueParser::new();
    decode_is!(p, b, addr, DW_ATE_signed, 1, Some("i8"), I8, i8, 1);
    decode_is!(p, b, addr, DW_ATE_signed, 2, Some("i16"), I16, i16, 2);
    decode_is!(p, b, addr, DW_ATE_signed, 4, Some("i32"), I32, i32, 4);
    decode_is!(p, b, addr, DW_ATE_signed, 8, Some("i64"), I64, i64, 8);
    decode_is!(p, b, addr, DW_ATE_signed, 8, Some("isize"), Isize, isize, 8);
    decode_is!(p, b, addr, DW_ATE_signed, 16, Some("i128"), I128, i128, 16);
    decode_is!(p, b, addr, DW_ATE_signed_char, 1, None, I8, i8, 1);
    kani::cover!(b[3] & 0x80 != 0 && b[7] & 0x80 == 0, "negative i32, positive i64");
    kani::cover!(true, "BSV-END");
}

//@ harness: c06_scalar_decode_unsigned
//@ property: C06
//@ obligation: H-C06-a
//@ tier: quick
//@ encodes: ValueParser::parse_scalar, scalar_from_bytes (unsigned integer kinds, address, floats, unit)
//@ symbolic: the 16 data bytes, the variable's address; types u8, u16, u32, u64, usize, u128, unsigned char, address, f32, f64, zero-sized (instances)
//@ bounds: as c06_scalar_decode_signed
//@ oracle: from_ne_bytes at the type's width, unsigned (usize by name, DW_ATE_address as usize); floats carry exactly the bit pattern of the bytes; a zero-sized integer type is the unit value
//@ assumes: fetched bytes as long as byte_size
//@ timeout: 1200
#[kani::proof]
#[kani::unwind(18)]
fn c06_scalar_decode_unsigned() {
    let b: [u8; 16] = kani::any();
    let addr: usize = kani::any();
    let p = ValueParser::new();
    decode_is!(p, b, addr, DW_ATE_unsigned, 1, Some("u8"), U8, u8, 1);
    decode_is!(p, b, addr, DW_ATE_unsigned, 2, Some("u16"), U16, u16, 2);
    decode_is!(p, b, addr, DW_ATE_unsigned, 4, Some("u32"), U32, u32, 4);
    decode_is!(p, b, addr, DW_ATE_unsigned, 8, Some("u64"), U64, u64, 8);
    decode_is!(p, b, addr, DW_ATE_unsigned, 8, Some("usize"), Usize, usize, 8);
    decode_is!(p, b, addr, DW_ATE_unsigned, 16, Some("u128"), U128, u128, 16);
    decode_is!(p, b, addr, DW_ATE_unsigned_char, 1, None, U8, u8, 1);
    decode_is!(p, b, addr, DW_ATE_address, 8, None, Usize, usize, 8);
    // floats: compare bit patterns (NaN payloads included)
    let ty = mk_type(DW_ATE_float, 4, Some("f32"));
    let v = p.parse_scalar(Some(mk_data(&b, 4, addr)), type_id(), &ty);
    bsv!(matches!(v.value, Some(SupportedScalar::F32(x)) if x.to_bits() == u32::from_ne_bytes(le::<4>(&b))), "f32 carries exactly the bits of the bytes");
    std::mem::forget((v, ty));
    let ty = mk_type(DW_ATE_float, 8, Some("f64"));
    let v = p.parse_scalar(Some(mk_data(&b, 8, addr)), type_id(), &ty);
    bsv!(matches!(v.value, Some(SupportedScalar::F64(x)) if x.to_bits() == u64::from_ne_bytes(le::<8>(&b))), "f64 carries exactly the bits of the bytes");
    std::mem::forget((v, ty));
    let ty = mk_type(DW_ATE_unsigned, 0, Some("()"));
    let v = p.parse_scalar(Some(mk_data(&b, 0, addr)), type_id(), &ty);
    bsv!(matches!(v.value, Some(SupportedScalar::Empty())), "a zero-sized base type is the unit value");
    std::mem::forget((v, ty));
    kani::cover!(b[15] != 0, "u128 using its top byte");
    kani::cover!(true, "BSV-END");
}

// NOTE: `char` (DW_ATE_UTF) is not decided: that arm validates the value with `char::to_string()` +
// `String::from_utf8`, and the formatting / UTF-8 validation machinery on a symbolic char exhausts 24 GB in
// propositional reduction even for the one-byte class (DESIGN 11.2).

//@ harness: c06_scalar_decode_bool
//@ property: C06
//@ obligation: H-C06-a
//@ tier: quick
//@ encodes: ValueParser::parse_scalar (DW_ATE_boolean)
//@ symbolic: the bool the program holds
//@ bounds: loop-free
//@ oracle: the bool shown is the bool the program holds
//@ assumes: the byte is 0 or 1 (other bit patterns are undefined behaviour to read as bool; C08's subject)
//@ timeout: 600
#[kani::proof]
#[kani::unwind(6)]
fn c06_scalar_decode_bool() {
    let bit: bool = kani::any();
    let mut bb = [0u8; 16];
    bb[0] = bit as u8;
    let p = ValueParser::new();
    let ty = mk_type(DW_ATE_boolean, 1, Some("bool"));
    let v = p.parse_scalar(Some(mk_data1(&bb)), type_id(), &ty);
    bsv!(matches!(v.value, Some(SupportedScalar::Bool(x)) if x == bit), "the bool shown is the bool the program holds");
    std::mem::forget((v, ty));
    kani::cover!(bit, "true");
    kani::cover!(true, "BSV-END");
}

fn mk_data1(b: &[u8; 16]) -> ObjectBinaryRepr {
    let mut v = Vec::with_capacity(1);
    v.push(b[0]);
    ObjectBinaryRepr { raw_data: bytes::Bytes::from(v), address: Some(0x1000), size: 1 }
}

/// short data: the type needs $size bytes, $n were fetched
macro_rules! short_read {
    ($p:expr, $b:expr, $n:literal, $enc:expr, $size:literal) => {{
        let ty = mk_type($enc, $size, None);
        // `size` is the size the type declares; `raw_data` holds what was actually fetched
        let mut data = mk_data(&$b, $n, 0x1000);
        data.size = $size;
        let v = $p.parse_scalar(Some(data), type_id(), &ty);
        bsv!(($n >= $size) == v.value.is_some(), "a value is shown exactly when enough bytes were fetched for the type");
        std::mem::forget(v);
        std::mem::forget(ty);
    }};
}

//@ harness: c08_scalar_short_data
//@ property: C08
//@ obligation: C08 unchecked reads
//@ tier: quick
//@ encodes: ValueParser::parse_scalar, scalar_from_bytes
//@ symbolic: the data bytes; (bytes fetched, type size) in {(8,16), (0,8), (4,8), (1,2), (8,8), (16,16)} (instances: a 16-byte integer in one register, nothing fetched, a truncated read, and two exact fits)
//@ bounds: loop-free; unwind 18
//@ oracle: while interpreting debuggee data the debugger never reads outside the bytes it fetched: no out-of-bounds dereference is reachable and no value is invented from bytes that were not fetched
//@ timeout: 1200
#[kani::proof]
#[kani::unwind(18)]
fn c08_scalar_short_data() {
    let b: [u8; 16] = kani::any();
    let p = ValueParser::new();
    short_read!(p, b, 8, DW_ATE_unsigned, 16);
    short_read!(p, b, 0, DW_ATE_signed, 8);
    short_read!(p, b, 4, DW_ATE_unsigned, 8);
    short_read!(p, b, 1, DW_ATE_signed, 2);
    short_read!(p, b, 8, DW_ATE_signed, 8);
    short_read!(p, b, 16, DW_ATE_unsigned, 16);
    kani::cover!(b[0] != 0, "some data");
    kani::cover!(true, "BSV-END");
}
