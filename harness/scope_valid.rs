//! inject: src/debugger/debugee/dwarf/unit/die_ref.rs
//
// C19 — the scope filter behind `var locals` / `arg all` / by-name lookup: a variable is listed at
// pc iff pc lies in the ranges of its enclosing lexical block / subprogram (half-open).
use super::*;
use std::mem::MaybeUninit;

macro_rules! bsv {
    ($c:expr, $m:literal) => {
        assert!($c, concat!("BSV: ", $m))
    };
}

static mut HAS_SCOPE: bool = false;
static mut NRANGES: usize = 0;
static mut RANGES: [(u64, u64); 2] = [(0, 0); 2];

fn stub_ranges<'a>(_this: &FatDieRef<'a, Variable>) -> Option<Box<[Range]>> {
    unsafe {
        if !HAS_SCOPE {
            return None;
        }
        let mut v = Vec::with_capacity(2);
        let mut i = 0;
        while i < 2 {
            if i < NRANGES {
                v.push(Range { begin: RANGES[i].0, end: RANGES[i].1 });
            }
            i += 1;
        }
        Some(v.into_boxed_slice())
    }
}

//@ harness: c19_valid_at
//@ property: C19
//@ obligation: H-C19-a
//@ tier: quick
//@ encodes: FatDieRef<Variable>::valid_at, GlobalAddress::in_ranges
//@ symbolic: pc; whether the variable has an enclosing block with ranges; 0..2 ranges with arbitrary bounds
//@ bounds: at most 2 ranges per block (instance); unwind 4
//@ oracle: a variable is in scope at pc iff pc is in [begin, end) of one of its block's ranges (a stop on the first instruction after an inner block does not list that block's variables); a variable without scope information is always listed
//@ stubs: FatDieRef<Variable>::ranges -> symbolic ranges (the DIE walk to the enclosing block needs parsed DWARF)
//@ outside: the DIE walk itself, shadowing order
//@ timeout: 900
#[kani::proof]
#[kani::stub(FatDieRef::ranges, stub_ranges)]
#[kani::unwind(4)]
fn c19_valid_at() {
    let pc: u64 = kani::any();
    let has: bool = kani::any();
    let n: usize = kani::any();
    kani::assume(n <= 2);
    let r: [(u64, u64); 2] = [(kani::any(), kani::any()), (kani::any(), kani::any())];
    unsafe {
        HAS_SCOPE = has;
        NRANGES = n;
        RANGES = r;
    }
    let fake = MaybeUninit::<FatDieRef<'static, Variable>>::uninit();
    let var: &FatDieRef<'static, Variable> = unsafe { &*fake.as_ptr() };
    let got = var.valid_at(GlobalAddress::from(pc));
    let mut inside = false;
    let mut i = 0;
    while i < 2 {
        if i < n && r[i].0 <= pc && pc < r[i].1 {
            inside = true;
        }
        i += 1;
    }
    bsv!(got == (!has || inside), "in scope iff pc is inside one of the enclosing block's half-open ranges");
    kani::cover!(has && n == 2 && pc == r[0].1 && r[0].0 < r[0].1 && !inside, "pc is the first address after the block");
    kani::cover!(has && inside && n == 2 && !(r[0].0 <= pc && pc < r[0].1), "in the second range only");
    kani::cover!(!has, "no scope information");
    kani::cover!(true, "BSV-END");
}
