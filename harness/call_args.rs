//! inject: src/debugger/call/mod.rs
//
// C16 — argument marshalling of `call f a1..an`: which register argument k travels in (System V
// AMD64 psABI: rdi, rsi, rdx, rcx, r8, r9) and that nothing else of the register file changes.
use super::*;
use nix::libc::user_regs_struct;

macro_rules! bsv {
    ($c:expr, $m:literal) => {
        assert!($c, concat!("BSV: ", $m))
    };
}

fn any_regs() -> user_regs_struct {
    user_regs_struct {
        r15: kani::any(),
        r14: kani::any(),
        r13: kani::any(),
        r12: kani::any(),
        rbp: kani::any(),
        rbx: kani::any(),
        r11: kani::any(),
        r10: kani::any(),
        r9: kani::any(),
        r8: kani::any(),
        rax: kani::any(),
        rcx: kani::any(),
        rdx: kani::any(),
        rsi: kani::any(),
        rdi: kani::any(),
        orig_rax: kani::any(),
        rip: kani::any(),
        cs: kani::any(),
        eflags: kani::any(),
        rsp: kani::any(),
        ss: kani::any(),
        fs_base: kani::any(),
        gs_base: kani::any(),
        ds: kani::any(),
        es: kani::any(),
        fs: kani::any(),
        gs: kani::any(),
    }
}

fn prepare<const K: usize>() {
    let before = any_regs();
    let mut map = RegisterMap::from(before);
    let vals: [u64; K] = kani::any();
    let mut v = Vec::with_capacity(K);
    let mut i = 0;
    while i < K {
        v.push((vals[i], RegType::General));
        i += 1;
    }
    let args = CallArgs(v.into_boxed_slice());
    args.prepare_registers(&mut map);
    let after: user_regs_struct = map.into();
    // psABI 3.2.3: INTEGER class arguments use %rdi, %rsi, %rdx, %rcx, %r8, %r9 in that order
    let got = [after.rdi, after.rsi, after.rdx, after.rcx, after.r8, after.r9];
    let old = [before.rdi, before.rsi, before.rdx, before.rcx, before.r8, before.r9];
    let mut i = 0;
    while i < 6 {
        if i < K {
            bsv!(got[i] == vals[i], "argument k travels in the k-th integer argument register (rdi, rsi, rdx, rcx, r8, r9)");
        } else {
            bsv!(got[i] == old[i], "argument registers beyond the argument count are untouched");
        }
        i += 1;
    }
    bsv!(after.rax == before.rax && after.rbx == before.rbx && after.rbp == before.rbp && after.rsp == before.rsp && after.rip == before.rip, "rax, rbx, rbp, rsp, rip untouched by argument marshalling");
    bsv!(after.r10 == before.r10 && after.r11 == before.r11 && after.r12 == before.r12 && after.r13 == before.r13 && after.r14 == before.r14 && after.r15 == before.r15, "r10-r15 untouched");
    bsv!(after.eflags == before.eflags && after.orig_rax == before.orig_rax && after.cs == before.cs && after.ss == before.ss && after.ds == before.ds && after.es == before.es && after.fs == before.fs && after.gs == before.gs && after.fs_base == before.fs_base && after.gs_base == before.gs_base, "flags and segment registers untouched");
    kani::cover!(K < 4 || vals[3] != old[3], "fourth argument changes rcx");
    kani::cover!(vals[K - 1] != old[K - 1], "last argument changes its register");
    kani::cover!(true, "BSV-END");
}

//@ harness: c16_prepare_registers_6
//@ property: C16
//@ obligation: H-C16-a
//@ tier: quick
//@ encodes: CallArgs::prepare_registers, get_reg_for_no, RegisterMap::{from, update}, From<RegisterMap> for user_regs_struct
//@ symbolic: the whole register file (27 registers), six argument values
//@ bounds: 6 arguments (instance: the maximum the debugger accepts); unwind 8
//@ oracle: System V AMD64 psABI 3.2.3: integer arguments 1..6 in rdi, rsi, rdx, rcx, r8, r9; every other register keeps its value
//@ outside: that f really runs once (CPU); floating-point and stack arguments (rejected by the debugger)
//@ timeout: 900
#[kani::proof]
#[kani::unwind(8)]
fn c16_prepare_registers_6() {
    prepare::<6>();
}

//@ harness: c16_prepare_registers_2
//@ property: C16
//@ obligation: H-C16-a
//@ tier: quick
//@ encodes: as c16_prepare_registers_6
//@ symbolic: the whole register file, two argument values
//@ bounds: 2 arguments (instance); unwind 8
//@ oracle: as c16_prepare_registers_6; rdx, rcx, r8, r9 keep their values
//@ timeout: 900
#[kani::proof]
#[kani::unwind(8)]
fn c16_prepare_registers_2() {
    prepare::<2>();
}

/// cut: the per-argument conversion (decided by c16_literal_to_register) is replaced by a constant so that
/// only the arity logic runs
fn stub_conv(no: usize, _lit: &Literal, _to_type: &ComplexType) -> Result<(u64, RegType), CallError> {
    Ok((no as u64, RegType::General))
}

//@ harness: c16_arity
//@ property: C16
//@ obligation: H-C16-a
//@ tier: quick
//@ encodes: CallArgs::new (arity checks, argument order), get_reg_for_no via prepare_registers
//@ symbolic: number of literals 0..8 and number of declared parameters 0..8
//@ bounds: up to 8 arguments; unwind 10
//@ oracle: a call that cannot be made reports an error: a count mismatch is InvalidArgumentCount(expected, got), more than six arguments is TooManyArguments; otherwise one register value per literal, in order; the register mapping's unreachable!() is never reached
//@ stubs: cut: liter_to_arg_bin_repr -> Ok((argument number, General)) (the conversion itself is c16_literal_to_register)
//@ timeout: 900
#[kani::proof]
#[kani::stub(liter_to_arg_bin_repr, stub_conv)]
#[kani::unwind(10)]
fn c16_arity() {
    let nl: usize = kani::any();
    let np: usize = kani::any();
    kani::assume(nl <= 8 && np <= 8);
    // eight literals and eight parameters are built; the call sees the first nl / np of them
    let mut lits = Vec::with_capacity(8);
    let mut params: Vec<Rc<ComplexType>> = Vec::with_capacity(8);
    let mut i = 0;
    while i < 8 {
        lits.push(Literal::Int(i as i64));
        // real Rc allocations whose ComplexType is never initialised (T2): with the conversion cut the types
        // are only borrowed, never read
        params.push(unsafe { Rc::<ComplexType>::new_uninit().assume_init() });
        i += 1;
    }
    let params_slice: &[Rc<ComplexType>] = &params[..np];
    let r = CallArgs::new(&lits[..nl], params_slice);
    match &r {
        Ok(a) => {
            bsv!(nl == np && nl <= 6 && a.0.len() == nl, "one register value per argument");
            let mut k = 0;
            while k < 6 {
                if k < a.0.len() {
                    bsv!(a.0[k].0 == k as u64, "arguments keep their order");
                }
                k += 1;
            }
        }
        Err(CallError::InvalidArgumentCount(e, g)) => bsv!(nl != np && *e == np && *g == nl, "count mismatch reports expected and got"),
        Err(CallError::TooManyArguments) => bsv!(nl == np && nl > 6, "more than six arguments is refused"),
        Err(_) => bsv!(false, "arity problems are reported as arity errors"),
    }
    kani::cover!(nl == 7 && np == 7, "seven arguments");
    kani::cover!(nl == 6 && np == 6, "six arguments");
    kani::cover!(nl == 0 && np == 0, "no arguments");
    kani::cover!(true, "BSV-END");
    std::mem::forget(r);
    std::mem::forget(lits);
    std::mem::forget(params);
}
