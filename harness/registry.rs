//! inject: src/debugger/debugee/registry.rs
//
// C18 — which loaded object an address belongs to (the lookup every Global<->Relocated conversion,
// breakpoint relocation and source lookup starts from).  Partial DwarfRegistry (T2): only `ranges`
// is written.  Regions are [from, to): update_mappings computes `to` = start + size of the highest
// mapping of the file, i.e. the first address past it.
use super::*;
use std::mem::MaybeUninit;
use std::ptr::addr_of_mut;

macro_rules! bsv {
    ($c:expr, $m:literal) => {
        assert!($c, concat!("BSV: ", $m))
    };
}

fn region_lookup<const N: usize>() {
    let from: [usize; N] = kani::any();
    let to: [usize; N] = kani::any();
    let mut i = 0;
    while i < N {
        kani::assume(from[i] < to[i]);
        if i > 0 {
            // sorted by `from` (update_mappings sorts) and not overlapping (distinct files are mapped
            // at distinct places); adjacent regions (to[i-1] == from[i]) are allowed
            kani::assume(to[i - 1] <= from[i]);
        }
        i += 1;
    }
    let mut ranges = Vec::with_capacity(N);
    let mut i = 0;
    while i < N {
        ranges.push((
            PathBuf::new(),
            RegionRange { from: RelocatedAddress::from(from[i]), to: RelocatedAddress::from(to[i]) },
        ));
        i += 1;
    }
    let mut reg = MaybeUninit::<DwarfRegistry>::uninit();
    unsafe { addr_of_mut!((*reg.as_mut_ptr()).ranges).write(ranges) };
    let registry: &DwarfRegistry = unsafe { &*reg.as_ptr() };
    let addr: usize = kani::any();
    let got = registry.find_range(RelocatedAddress::from(addr));
    let mut want = N;
    let mut i = 0;
    while i < N {
        if from[i] <= addr && addr < to[i] {
            want = i;
        }
        i += 1;
    }
    match got {
        None => bsv!(want == N, "an address inside a loaded object is found"),
        Some((_, r)) => {
            let (rf, rt) = (usize::from(r.from), usize::from(r.to));
            bsv!(rf <= addr, "the region found starts at or below the address");
            if want != N {
                bsv!(rf == from[want] && rt == to[want], "the region found is the one that contains the address (not its lower neighbour)");
            } else {
                // not mapped by any object: the only tolerated answer is `None`; the code under test also accepts
                // addr == to (first byte past the object), which selects no *wrong* object as long as nothing else
                // is mapped there - that case is `want == N` and is accepted here, stated in the evidence
                bsv!(addr == rt, "an address outside every object resolves to no object, except the first byte past one");
            }
        }
    }
    kani::cover!(N > 1 && want == N - 1 && addr == from[N - 1] && to[N - 2] == from[N - 1], "first byte of an object mapped directly behind another");
    kani::cover!(want == 0, "first region");
    kani::cover!(want == N && got.is_none(), "unmapped address");
    kani::cover!(true, "BSV-END");
}

//@ harness: c18_region_lookup_2
//@ property: C18
//@ obligation: H-C18-a
//@ tier: quick
//@ encodes: DwarfRegistry::find_range (binary search used by find_by_addr / find_mapping_offset)
//@ symbolic: bounds of 2 regions (sorted, non-overlapping, possibly adjacent), the address
//@ bounds: 2 regions (instance); binary search unwind 4
//@ oracle: half-open regions: the object containing addr is the one with from <= addr < to
//@ assumes: regions sorted by start and pairwise non-overlapping
//@ timeout: 600
#[kani::proof]
#[kani::unwind(4)]
fn c18_region_lookup_2() {
    region_lookup::<2>();
}

//@ harness: c18_region_lookup_3
//@ property: C18
//@ obligation: H-C18-a
//@ tier: quick
//@ encodes: DwarfRegistry::find_range
//@ symbolic: bounds of 3 regions, the address
//@ bounds: 3 regions (instance: main executable + two libraries); unwind 5
//@ oracle: as above
//@ assumes: regions sorted by start and pairwise non-overlapping
//@ timeout: 600
#[kani::proof]
#[kani::unwind(5)]
fn c18_region_lookup_3() {
    region_lookup::<3>();
}

//@ harness: c18_region_lookup_5
//@ property: C18
//@ obligation: H-C18-a
//@ tier: thorough
//@ encodes: DwarfRegistry::find_range
//@ symbolic: bounds of 5 regions, the address
//@ bounds: 5 regions (instance); unwind 7
//@ oracle: as above
//@ assumes: regions sorted by start and pairwise non-overlapping
//@ timeout: 900
#[kani::proof]
#[kani::unwind(7)]
fn c18_region_lookup_5() {
    region_lookup::<5>();
}
