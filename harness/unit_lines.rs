//! inject: src/debugger/debugee/dwarf/unit/mod.rs
//
// C04 — pc <-> line-table row lookups on a partial BsUnit (T2: only `lines` and `files` are written).
// Oracle (T6): DWARF 5 section 6.2 — the row for pc is the non-end_sequence row with the largest
// address <= pc; an end_sequence row only marks the first byte after a sequence.
use super::*;
use std::mem::MaybeUninit;
use std::ptr::addr_of_mut;

macro_rules! bsv {
    ($c:expr, $m:literal) => {
        assert!($c, concat!("BSV: ", $m))
    };
}

fn any_row() -> LineRow {
    let file_index: u64 = kani::any();
    kani::assume(file_index < 2);
    let flags: u8 = kani::any();
    kani::assume(flags & !(IS_STMT | PROLOG_END | EPILOG_BEGIN | END_SEQUENCE) == 0);
    LineRow { address: kani::any(), file_index, line: kani::any(), column: kani::any(), flags }
}

fn mk_unit<const N: usize>(rows: &[LineRow; N]) -> MaybeUninit<BsUnit> {
    let mut u = MaybeUninit::<BsUnit>::uninit();
    let mut lines = Vec::with_capacity(N);
    let mut i = 0;
    while i < N {
        lines.push(rows[i].clone());
        i += 1;
    }
    let mut files = Vec::with_capacity(2);
    files.push(PathBuf::new());
    files.push(PathBuf::new());
    unsafe {
        addr_of_mut!((*u.as_mut_ptr()).lines).write(lines);
        addr_of_mut!((*u.as_mut_ptr()).files).write(files);
    }
    u
}

/// N rows sorted by address, ties allowed (parser.rs sorts with sort_unstable_by_key, so the order
/// inside a tie is arbitrary)
fn sorted_rows<const N: usize>() -> [LineRow; N] {
    let rows: [LineRow; N] = std::array::from_fn(|_| any_row());
    let mut i = 1;
    while i < N {
        let (a, b) = (rows[i - 1].address, rows[i].address);
        kani::assume(a <= b);
        i += 1;
    }
    rows
}

fn pc_to_row<const N: usize>() {
    let rows = sorted_rows::<N>();
    let u = mk_unit(&rows);
    let unit: &BsUnit = unsafe { &*u.as_ptr() };
    let pc: u64 = kani::any();
    let first = rows[0].address;
    kani::assume(pc >= first);
    let r = unit.find_place_by_pc(GlobalAddress::from(pc));
    bsv!(r.is_some(), "a pc at or above the first row has a row");
    if let Some(p) = &r {
        let idx = p.pos_in_unit;
        bsv!(idx < N, "row index inside the table");
        let a = rows[idx].address;
        bsv!(a <= pc, "the row's address is not above pc");
        let mut alt = false;
        let mut j = 0;
        while j < N {
            let aj = rows[j].address;
            bsv!(!(aj <= pc && aj > a), "no other row lies between the answer and pc");
            let fj = rows[j].flags;
            if aj == a && fj & END_SEQUENCE == 0 {
                alt = true;
            }
            j += 1;
        }
        let fi = rows[idx].flags;
        bsv!(!(alt && fi & END_SEQUENCE != 0), "an end_sequence row is not preferred over a real row at the same address");
        // the descriptor is that row
        let (la, ll, lc, lf) = (rows[idx].address, rows[idx].line, rows[idx].column, rows[idx].file_index);
        bsv!(u64::from(p.address) == la && p.line_number == ll && p.column_number == lc && p.file_idx == lf, "descriptor carries the row's address, line, column and file");
        bsv!(p.is_stmt == (fi & IS_STMT != 0) && p.prolog_end == (fi & PROLOG_END != 0) && p.epilog_begin == (fi & EPILOG_BEGIN != 0) && p.end_sequence == (fi & END_SEQUENCE != 0), "descriptor carries the row's flags");
        kani::cover!(idx == 0, "first row");
        kani::cover!(idx == N - 1 && pc > a, "pc beyond the last row's address");
        kani::cover!(N < 2 || (alt && idx > 0 && rows[idx - 1].address == a), "tie: a row with the same address precedes the answer");
    }
    kani::cover!(true, "BSV-END");
    std::mem::forget(r);
}

fn exact_row<const N: usize>() {
    let rows = sorted_rows::<N>();
    let u = mk_unit(&rows);
    let unit: &BsUnit = unsafe { &*u.as_ptr() };
    let pc: u64 = kani::any();
    let r = unit.find_exact_place_by_pc(GlobalAddress::from(pc));
    let mut first_eq = N;
    let mut j = N;
    while j > 0 {
        j -= 1;
        if rows[j].address == pc {
            first_eq = j;
        }
    }
    match &r {
        None => bsv!(first_eq == N, "None only when no row has exactly this address"),
        Some(p) => {
            bsv!(p.pos_in_unit == first_eq, "the first row with exactly this address");
            bsv!(u64::from(p.address) == pc, "exact address");
            let nx = p.next();
            match &nx {
                None => bsv!(p.pos_in_unit + 1 == N, "next() is None only at the last row"),
                Some(q) => bsv!(q.pos_in_unit == p.pos_in_unit + 1, "next() is the following row"),
            }
            if p.pos_in_unit > 0 {
                let pv = p.prev();
                bsv!(matches!(&pv, Some(q) if q.pos_in_unit + 1 == p.pos_in_unit), "prev() is the preceding row");
                std::mem::forget(pv);
            }
            std::mem::forget(nx);
            kani::cover!(p.pos_in_unit == N - 1, "hit at the last row");
            kani::cover!(N > 2 && p.pos_in_unit == 1 && rows[2].address == pc, "first of several equal rows");
        }
    }
    kani::cover!(r.is_none(), "no exact row");
    kani::cover!(true, "BSV-END");
    std::mem::forget(r);
}

fn eb_row<const N: usize>() {
    let rows = sorted_rows::<N>();
    let u = mk_unit(&rows);
    let unit: &BsUnit = unsafe { &*u.as_ptr() };
    let pc: u64 = kani::any();
    kani::assume(pc >= rows[0].address);
    let r = unit.find_eb(GlobalAddress::from(pc));
    if let Some(p) = &r {
        let idx = p.pos_in_unit;
        bsv!(idx < N, "row index inside the table");
        let fi = rows[idx].flags;
        let a = rows[idx].address;
        bsv!(fi & EPILOG_BEGIN != 0, "the row is an epilogue begin");
        bsv!(a <= pc, "at the given address or below");
        let mut j = 0;
        while j < N {
            let (aj, fj) = (rows[j].address, rows[j].flags);
            bsv!(!(j > idx && aj < pc && fj & EPILOG_BEGIN != 0), "no nearer epilogue-begin row strictly below pc was skipped");
            j += 1;
        }
        kani::cover!(idx + 1 < N, "an epilogue row before the end of the table");
    } else {
        let mut j = 1;
        while j < N {
            let (aj, fj) = (rows[j].address, rows[j].flags);
            bsv!(!(aj < pc && fj & EPILOG_BEGIN != 0), "None only when no epilogue-begin row (other than row 0) lies strictly below pc");
            j += 1;
        }
    }
    kani::cover!(r.is_none(), "no epilogue row");
    kani::cover!(true, "BSV-END");
    std::mem::forget(r);
}

// NOTE: find_lines_for_range is not decided: it collects a Vec whose length is symbolic (Vec::with_capacity(symbolic) and a
// push loop with symbolic bounds); even a 2-row table exhausts 20 GB in propositional reduction (DESIGN 11.2).

macro_rules! inst {
    ($name:ident, $f:ident, $n:literal, $unw:literal) => {
        #[kani::proof]
        #[kani::unwind($unw)]
        fn $name() {
            $f::<$n>();
        }
    };
}

//@ harness: c04_pc_to_row_2
//@ property: C04
//@ obligation: H-C04-a
//@ tier: quick
//@ encodes: BsUnit::{find_place_by_pc, find_place_by_idx}, PlaceDescriptor::from, LineRow flag accessors
//@ symbolic: 2 rows (address, file index < 2, line, column, flags), sorted by address with ties allowed; pc (u64) at or above the first row
//@ bounds: row count 2 (instance); binary search <= 3 iterations; unwind 8
//@ oracle: DWARF 5 6.2: answer address <= pc, no row between it and pc, an end_sequence row is not preferred over a real row at the same address; descriptor fields equal the row
//@ assumes: rows sorted by address (parser.rs:60); pc >= first row (callers reach the unit through find_unit_by_pc, which filters by unit ranges); file index < files.len()
//@ outside: gimli's decoding of .debug_line; pc below the first row of a unit
//@ timeout: 600
inst!(c04_pc_to_row_2, pc_to_row, 2, 8);

//@ harness: c04_pc_to_row_4
//@ property: C04
//@ obligation: H-C04-a
//@ tier: quick
//@ encodes: BsUnit::{find_place_by_pc, find_place_by_idx}, PlaceDescriptor::from
//@ symbolic: 4 sorted rows with ties, pc
//@ bounds: row count 4 (instance); unwind 8
//@ oracle: as c04_pc_to_row_2
//@ assumes: rows sorted; pc >= first row
//@ timeout: 900
inst!(c04_pc_to_row_4, pc_to_row, 4, 8);

//@ harness: c04_pc_to_row_1
//@ property: C04
//@ obligation: H-C04-a
//@ tier: thorough
//@ encodes: BsUnit::find_place_by_pc
//@ symbolic: 1 row, pc
//@ bounds: row count 1; unwind 8
//@ oracle: as c04_pc_to_row_2
//@ assumes: pc >= first row
//@ timeout: 600
inst!(c04_pc_to_row_1, pc_to_row, 1, 8);

//@ harness: c04_pc_to_row_3
//@ property: C04
//@ obligation: H-C04-a
//@ tier: thorough
//@ encodes: BsUnit::find_place_by_pc
//@ symbolic: 3 sorted rows with ties, pc
//@ bounds: row count 3; unwind 8
//@ oracle: as c04_pc_to_row_2
//@ assumes: rows sorted; pc >= first row
//@ timeout: 900
inst!(c04_pc_to_row_3, pc_to_row, 3, 8);

//@ harness: c04_pc_to_row_5
//@ property: C04
//@ obligation: H-C04-a
//@ tier: thorough
//@ encodes: BsUnit::find_place_by_pc
//@ symbolic: 5 sorted rows with ties, pc
//@ bounds: row count 5; unwind 8
//@ oracle: as c04_pc_to_row_2
//@ assumes: rows sorted; pc >= first row
//@ timeout: 1800
inst!(c04_pc_to_row_5, pc_to_row, 5, 8);

//@ harness: c04_pc_to_row_6
//@ property: C04
//@ obligation: H-C04-a
//@ tier: thorough
//@ encodes: BsUnit::find_place_by_pc
//@ symbolic: 6 sorted rows with ties, pc
//@ bounds: row count 6; unwind 9
//@ oracle: as c04_pc_to_row_2
//@ assumes: rows sorted; pc >= first row
//@ timeout: 2400
inst!(c04_pc_to_row_6, pc_to_row, 6, 9);

//@ harness: c04_exact_row_3
//@ property: C04
//@ obligation: H-C04-b
//@ tier: quick
//@ encodes: BsUnit::{find_exact_place_by_pc, find_place_by_idx}, PlaceDescriptor::{next, prev}
//@ symbolic: 3 sorted rows with ties, pc (any u64)
//@ bounds: row count 3; unwind 8
//@ oracle: Some iff a row has exactly this address; it is the first such row; next()/prev() are the neighbouring rows or None at the ends
//@ tolerate: O | attempt to subtract with overflow | find_exact_place_by_pc | dev-profile only: `p -= 1` at row 0 wraps in release and the lookup at usize::MAX returns None (DESIGN 8 item 8); paths through it are not explored further by Kani
//@ assumes: rows sorted
//@ timeout: 900
inst!(c04_exact_row_3, exact_row, 3, 8);

//@ harness: c04_exact_row_5
//@ property: C04
//@ obligation: H-C04-b
//@ tier: thorough
//@ encodes: BsUnit::find_exact_place_by_pc, PlaceDescriptor::{next, prev}
//@ symbolic: 5 sorted rows with ties, pc
//@ bounds: row count 5; unwind 9
//@ oracle: as c04_exact_row_3
//@ tolerate: O | attempt to subtract with overflow | find_exact_place_by_pc | dev-profile only (see c04_exact_row_3)
//@ assumes: rows sorted
//@ timeout: 1800
inst!(c04_exact_row_5, exact_row, 5, 9);

//@ harness: c04_find_eb_4
//@ property: C04
//@ obligation: H-C04-b
//@ tier: quick
//@ encodes: BsUnit::find_eb
//@ symbolic: 4 sorted rows with ties, pc at or above the first row
//@ bounds: row count 4; unwind 8
//@ oracle: the returned row is an epilogue-begin row at or below pc and no epilogue-begin row strictly below pc lies after it; None only if there is none (row 0 is never considered by the code: stated)
//@ assumes: rows sorted; pc >= first row
//@ timeout: 900
inst!(c04_find_eb_4, eb_row, 4, 8);


//@ harness: c04_pc_to_row_8
//@ property: C04
//@ obligation: H-C04-a
//@ tier: thorough
//@ encodes: BsUnit::find_place_by_pc
//@ symbolic: 8 sorted rows with ties, pc
//@ bounds: row count 8; unwind 11
//@ oracle: as c04_pc_to_row_2
//@ assumes: rows sorted; pc >= first row
//@ timeout: 3000
//@ mem_gb: 20
inst!(c04_pc_to_row_8, pc_to_row, 8, 11);

//@ harness: c04_pc_to_row_10
//@ property: C04
//@ obligation: H-C04-a
//@ tier: thorough
//@ encodes: BsUnit::find_place_by_pc
//@ symbolic: 10 sorted rows with ties, pc
//@ bounds: row count 10; unwind 13
//@ oracle: as c04_pc_to_row_2
//@ assumes: rows sorted; pc >= first row
//@ timeout: 3600
//@ mem_gb: 24
inst!(c04_pc_to_row_10, pc_to_row, 10, 13);

//@ harness: c04_exact_row_8
//@ property: C04
//@ obligation: H-C04-b
//@ tier: thorough
//@ encodes: BsUnit::find_exact_place_by_pc, PlaceDescriptor::{next, prev}
//@ symbolic: 8 sorted rows with ties, pc
//@ bounds: row count 8; unwind 11
//@ oracle: as c04_exact_row_3
//@ tolerate: O | attempt to subtract with overflow | find_exact_place_by_pc | dev-profile only (see c04_exact_row_3)
//@ assumes: rows sorted
//@ timeout: 3000
//@ mem_gb: 20
inst!(c04_exact_row_8, exact_row, 8, 11);

//@ harness: c04_find_eb_8
//@ property: C04
//@ obligation: H-C04-b
//@ tier: thorough
//@ encodes: BsUnit::find_eb
//@ symbolic: 8 sorted rows with ties, pc at or above the first row
//@ bounds: row count 8; unwind 11
//@ oracle: as c04_find_eb_4
//@ assumes: rows sorted; pc >= first row
//@ timeout: 3000
//@ mem_gb: 20
inst!(c04_find_eb_8, eb_row, 8, 11);
