// child of src/debugger/debugee/dwarf/unit/mod.rs
use super::*;
use std::mem::MaybeUninit;
use std::ptr::addr_of_mut;

const N: usize = 5;

fn mk_unit(rows: [LineRow; N], n: usize) -> MaybeUninit<BsUnit> {
    let mut u = MaybeUninit::<BsUnit>::uninit();
    let mut lines = Vec::with_capacity(N);
    let mut i = 0;
    while i < N {
        if i < n {
            lines.push(rows[i].clone());
        }
        i += 1;
    }
    let mut files = Vec::with_capacity(2);
    files.push(PathBuf::new());
    files.push(PathBuf::new());
    unsafe {
        addr_of_mut!((*u.as_mut_ptr()).lines).write(lines);
        addr_of_mut!((*u.as_mut_ptr()).files).write(files);
    }
    u
}

fn any_row() -> LineRow {
    let address: u64 = kani::any();
    let file_index: u64 = kani::any();
    kani::assume(file_index < 2);
    let flags: u8 = kani::any();
    LineRow { address, file_index, line: kani::any(), column: 0, flags }
}

#[kani::proof]
#[kani::unwind(7)]
fn probe_find_place_by_pc() {
    let rows: [LineRow; N] = [any_row(), any_row(), any_row(), any_row(), any_row()];
    let n: usize = kani::any();
    kani::assume(n >= 1 && n <= N);
    // sorted by address (ties allowed)
    let mut i = 1;
    while i < N {
        if i < n {
            let (a, b) = (rows[i - 1].address, rows[i].address);
            kani::assume(a <= b);
        }
        i += 1;
    }
    let u = mk_unit(rows.clone(), n);
    let unit: &BsUnit = unsafe { &*u.as_ptr() };
    let pc: u64 = kani::any();
    let first = rows[0].address;
    kani::assume(pc >= first);
    let r = unit.find_place_by_pc(GlobalAddress::from(pc));
    match &r {
        None => assert!(false, "BSV: a row at or below pc exists"),
        Some(p) => {
            let idx = p.pos_in_unit;
            assert!(idx < n, "BSV: index in table");
            let a = rows[idx].address;
            assert!(a <= pc, "BSV: row not above pc");
            // no later row with a strictly larger address that is still <= pc
            let mut j = 0;
            while j < N {
                if j < n {
                    let aj = rows[j].address;
                    assert!(!(aj <= pc && aj > a), "BSV: nearest row");
                }
                j += 1;
            }
            kani::cover!(idx == 0);
            kani::cover!(idx == 3);
        }
    }
    std::mem::forget(r);
}

#[kani::proof]
#[kani::unwind(7)]
fn probe_find_exact_place_by_pc() {
    let rows: [LineRow; N] = [any_row(), any_row(), any_row(), any_row(), any_row()];
    let n: usize = kani::any();
    kani::assume(n >= 1 && n <= N);
    let mut i = 1;
    while i < N {
        if i < n {
            let (a, b) = (rows[i - 1].address, rows[i].address);
            kani::assume(a <= b);
        }
        i += 1;
    }
    let u = mk_unit(rows.clone(), n);
    let unit: &BsUnit = unsafe { &*u.as_ptr() };
    let pc: u64 = kani::any();
    let r = unit.find_exact_place_by_pc(GlobalAddress::from(pc));
    if let Some(p) = &r {
        let a = rows[p.pos_in_unit].address;
        assert!(a == pc, "BSV: exact");
    }
    std::mem::forget(r);
}

#[kani::proof]
#[kani::unwind(7)]
fn probe_find_place_by_pc_fixed_n() {
    let rows: [LineRow; N] = [any_row(), any_row(), any_row(), any_row(), any_row()];
    let mut i = 1;
    while i < N {
        let (a, b) = (rows[i - 1].address, rows[i].address);
        kani::assume(a <= b);
        i += 1;
    }
    let u = mk_unit(rows.clone(), N);
    let unit: &BsUnit = unsafe { &*u.as_ptr() };
    let pc: u64 = kani::any();
    let first = rows[0].address;
    kani::assume(pc >= first);
    let r = unit.find_place_by_pc(GlobalAddress::from(pc));
    match &r {
        None => assert!(false, "BSV: a row at or below pc exists"),
        Some(p) => {
            let idx = p.pos_in_unit;
            assert!(idx < N, "BSV: index in table");
            let a = rows[idx].address;
            assert!(a <= pc, "BSV: row not above pc");
        }
    }
    std::mem::forget(r);
}

#[kani::proof]
#[kani::unwind(7)]
fn probe_find_exact_fixed_n() {
    let rows: [LineRow; N] = [any_row(), any_row(), any_row(), any_row(), any_row()];
    let mut i = 1;
    while i < N {
        let (a, b) = (rows[i - 1].address, rows[i].address);
        kani::assume(a <= b);
        i += 1;
    }
    let u = mk_unit(rows.clone(), N);
    let unit: &BsUnit = unsafe { &*u.as_ptr() };
    let pc: u64 = kani::any();
    let r = unit.find_exact_place_by_pc(GlobalAddress::from(pc));
    if let Some(p) = &r {
        let a = rows[p.pos_in_unit].address;
        assert!(a == pc, "BSV: exact");
        if p.pos_in_unit > 0 {
            let prev = rows[p.pos_in_unit - 1].address;
            assert!(prev != pc, "BSV: first of equals");
        }
    }
    std::mem::forget(r);
}
