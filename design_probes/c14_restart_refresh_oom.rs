// (not loaded by the driver: out of memory at 12 GB after 16 min, see DESIGN 11.7) — was appended to harness/c14_watchpoint.rs

// ---- H-C14-c: the registry after a restart: every surviving watchpoint is re-armed and later threads inherit all of them
static mut CTL: *const TraceeCtl = std::ptr::null();
fn stub_debugee_tracee_ctl(_this: &Debugee) -> &TraceeCtl {
    unsafe { &*CTL }
}

//@ harness: c14_restart_refresh_inherit
//@ property: C14
//@ obligation: H-C14-c
//@ tier: quick
//@ encodes: WatchpointRegistry::{refresh, distribute_to_tracee}, Watchpoint::refresh, HardwareBreakpoint::enable, HardwareDebugState::{current, sync}
//@ symbolic: two address watchpoints that survived a restart (addresses, lengths, conditions symbolic), kept in the registry in disabled state; the debug registers of the new process are clear
//@ bounds: 2 watchpoints, 2 threads at refresh time + 1 thread created afterwards; unwind 6
//@ oracle: after refresh both watchpoints are armed in every existing thread (their addresses in two distinct debug registers with L bit, R/W and LEN as requested), the registry's cached image equals what the hardware holds, and a thread created afterwards receives exactly that image - all active watchpoints, not a prefix of them
//@ stubs: ptrace::read_user / write_user -> per-thread u_debugreg array; Debugee::tracee_ctl -> a harness-built TraceeCtl (threads 7, 8); HashMap -> T7
//@ assumes: the new process starts with clear debug registers (exec clears them)
//@ outside: expression watchpoints (re-evaluation needs DWARF), scoped watchpoints (removed before a restart)
//@ timeout: 1800
#[kani::proof]
#[kani::stub(nix::sys::ptrace::read_user, stub_read_user)]
#[kani::stub(nix::sys::ptrace::write_user, stub_write_user)]
#[kani::stub(Debugee::tracee_ctl, stub_debugee_tracee_ctl)]
#[kani::unwind(6)]
fn c14_restart_refresh_inherit() {
    unsafe {
        DREGS = [[0; 8]; NTHREADS];
        WRITES = 0;
    }
    let pids = [Pid::from_raw(7), Pid::from_raw(8)];
    let ctl = TraceeCtl::new_external(Pid::from_raw(7), &pids);
    unsafe { CTL = &ctl };
    let a1: usize = kani::any();
    let a2: usize = kani::any();
    kani::assume(a1 != a2);
    let (n1, s1) = any_size();
    let (n2, s2) = any_size();
    let (rw1, c1) = any_cond();
    let (rw2, c2) = any_cond();
    let mut wps = Vec::with_capacity(2);
    wps.push(Watchpoint {
        number: 1,
        hw: HardwareBreakpoint::new(RelocatedAddress::from(a1), s1, c1),
        subject: Subject::Address(AddressTarget { last_value: None }),
        temporary: false,
    });
    wps.push(Watchpoint {
        number: 2,
        hw: HardwareBreakpoint::new(RelocatedAddress::from(a2), s2, c2),
        subject: Subject::Address(AddressTarget { last_value: None }),
        temporary: false,
    });
    let mut reg = WatchpointRegistry { watchpoints: wps, last_seen_state: None };
    let fake = std::mem::MaybeUninit::<Debugee>::uninit();
    let debugee: &Debugee = unsafe { &*fake.as_ptr() };
    let errs = reg.refresh(debugee);
    bsv!(errs.is_empty(), "re-arming two watchpoints in a fresh process succeeds");
    std::mem::forget(errs);
    let hw = unsafe { DREGS };
    bsv!(same(&hw[0], &hw[1]), "every thread holds the same image");
    // both watchpoints armed, in distinct slots, as requested (SDM 18.2.4)
    let mut found1 = 4;
    let mut found2 = 4;
    let mut i = 0;
    while i < 4 {
        let l = hw[0][7] >> (2 * i) & 1 == 1;
        let rw = hw[0][7] >> (16 + 4 * i) & 0b11;
        let len = hw[0][7] >> (18 + 4 * i) & 0b11;
        if l && hw[0][i] == a1 && rw == rw1 && len == sdm_len(n1) {
            found1 = i;
        } else if l && hw[0][i] == a2 && rw == rw2 && len == sdm_len(n2) {
            found2 = i;
        } else {
            bsv!(!l, "no debug register is enabled for anything but the two watchpoints");
        }
        i += 1;
    }
    bsv!(found1 < 4 && found2 < 4 && found1 != found2, "both watchpoints are armed again, each in its own debug register");
    match &reg.last_seen_state {
        Some(st) => {
            bsv!(st.address_regs[0] == hw[0][0] && st.address_regs[1] == hw[0][1] && st.address_regs[2] == hw[0][2] && st.address_regs[3] == hw[0][3], "the registry's cached addresses are the ones in hardware");
            bsv!(dr7_of(&st.dr7) == hw[0][7], "the registry's cached control register is the one in hardware");
        }
        None => bsv!(false, "the registry remembers the image it wrote"),
    }
    // a thread created after the restart
    let t = Tracee { number: 3, pid: Pid::from_raw(9), status: crate::debugger::debugee::tracee::TraceeStatus::Running };
    let r = reg.distribute_to_tracee(&t);
    bsv!(r.is_ok(), "distribution succeeds");
    std::mem::forget(r);
    let now = unsafe { DREGS };
    bsv!(now[2][0] == hw[0][0] && now[2][1] == hw[0][1] && now[2][2] == hw[0][2] && now[2][3] == hw[0][3] && now[2][7] == hw[0][7], "a thread created after the restart inherits every active watchpoint");
    kani::cover!(found1 == 0 && found2 == 1, "slots 0 and 1 used");
    kani::cover!(n1 == 8 && n2 == 1 && rw1 != rw2, "different lengths and conditions");
    kani::cover!(true, "BSV-END");
    std::mem::forget(reg);
}
