use super::*;
use nix::libc::c_long;
const BASE: usize = 0x1000;
const MEM_LEN: usize = 40;
static mut MEM: [u8; MEM_LEN] = [0; MEM_LEN];

fn stub_read(_pid: Pid, addr: *mut c_void) -> nix::Result<c_long> {
    let a = addr as usize;
    if a < BASE || a > BASE + MEM_LEN - 8 {
        return Err(nix::errno::Errno::EIO);
    }
    let off = a - BASE;
    let mut w = [0u8; 8];
    let mut i = 0;
    while i < 8 {
        w[i] = unsafe { MEM[off + i] };
        i += 1;
    }
    Ok(c_long::from_ne_bytes(w))
}

#[kani::proof]
#[kani::stub(nix::sys::ptrace::read, stub_read)]
#[kani::unwind(20)]
fn probe_read_memory_by_pid() {
    let init: [u8; MEM_LEN] = kani::any();
    unsafe { MEM = init };
    let off: usize = kani::any();
    let n: usize = kani::any();
    kani::assume(off <= 8);
    kani::assume(n <= 17);
    let r = read_memory_by_pid(Pid::from_raw(1), BASE + off, n).unwrap();
    assert!(r.len() == n);
    let mut i = 0;
    while i < n {
        assert!(r[i] == init[off + i]);
        i += 1;
    }
}
