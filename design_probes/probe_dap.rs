// child of src/dap/yadap/session/mod.rs
use super::*;

struct Rec {
    seqs: [i64; 4],
    n: usize,
}
impl DapTransport for Rec {
    fn read_message(&mut self) -> anyhow::Result<Value> {
        Err(anyhow!("none"))
    }
    fn write_message(&mut self, message: &Value) -> anyhow::Result<()> {
        let s = message.get("seq").and_then(|v| v.as_i64()).unwrap_or(-1);
        if self.n < 4 {
            self.seqs[self.n] = s;
        }
        self.n += 1;
        Ok(())
    }
}

static mut WIRE: [i64; 4] = [0; 4];
static mut WIRE_N: usize = 0;

struct Rec2;
impl DapTransport for Rec2 {
    fn read_message(&mut self) -> anyhow::Result<Value> {
        Err(anyhow!("none"))
    }
    fn write_message(&mut self, message: &Value) -> anyhow::Result<()> {
        let s = message.get("seq").and_then(|v| v.as_i64()).unwrap_or(-1);
        unsafe {
            if WIRE_N < 4 {
                WIRE[WIRE_N] = s;
            }
            WIRE_N += 1;
        }
        Ok(())
    }
}

fn fixed_random_state() -> std::hash::RandomState {
    unsafe { std::mem::transmute::<(u64, u64), std::hash::RandomState>((1u64, 2u64)) }
}

fn no_backtrace() -> std::backtrace::Backtrace {
    std::backtrace::Backtrace::disabled()
}

#[kani::proof]
#[kani::stub(std::backtrace::Backtrace::capture, no_backtrace)]
#[kani::stub(std::hash::RandomState::new, fixed_random_state)]
#[kani::unwind(12)]
fn probe_dap_seq() {
    let io: Arc<Mutex<dyn DapTransport>> = Arc::new(Mutex::new(Rec2));
    let mut s = DebugSession::new(io);
    let r1 = s.send_event_raw("stopped", None);
    let r2 = s.send_event_raw("continued", None);
    assert!(r1.is_ok() && r2.is_ok());
    unsafe {
        assert!(WIRE_N == 2, "BSV: two messages");
        assert!(WIRE[0] == 1 && WIRE[1] == 2, "BSV: seq 1,2");
    }
    std::mem::forget(r1);
    std::mem::forget(r2);
    std::mem::forget(s);
}

// ---------------- C12-c: seq allocated under the transport lock? ----------------
use std::sync::atomic::Ordering;
use std::sync::{LockResult, MutexGuard, TryLockError};

static mut W2: [i64; 6] = [0; 6];
static mut W2_N: usize = 0;
static mut ADV_SEQ: Option<Arc<AtomicI64>> = None;
static mut ADV_BUDGET: u8 = 0;

fn rec(seq: i64) {
    unsafe {
        if W2_N < 6 {
            W2[W2_N] = seq;
        }
        W2_N += 1;
    }
}

fn stub_send_event(
    seq: i64,
    _io: &mut dyn DapTransport,
    _name: &'static str,
    _body: Option<Value>,
) -> anyhow::Result<()> {
    rec(seq);
    Ok(())
}

fn adversary_step() {
    // a complete foreign send (forwarder thread): take a number, write it under the lock
    unsafe {
        if ADV_BUDGET > 0 && kani::any() {
            ADV_BUDGET -= 1;
            let ctr = (*std::ptr::addr_of!(ADV_SEQ)).as_ref().unwrap();
            let s = ctr.fetch_add(1, Ordering::Relaxed);
            rec(s);
        }
    }
}

fn stub_lock<T: ?Sized>(this: &Mutex<T>) -> LockResult<MutexGuard<'_, T>> {
    // context switch point: another thread may run a whole send before we get the lock
    adversary_step();
    match this.try_lock() {
        Ok(g) => Ok(g),
        Err(TryLockError::Poisoned(p)) => Err(p),
        Err(TryLockError::WouldBlock) => panic!("single-threaded model: lock is free"),
    }
}

#[kani::proof]
#[kani::stub(std::backtrace::Backtrace::capture, no_backtrace)]
#[kani::stub(std::hash::RandomState::new, fixed_random_state)]
#[kani::stub(crate::dap::yadap::protocol::send_event, stub_send_event)]
#[kani::stub(std::sync::Mutex::lock, stub_lock)]
#[kani::unwind(8)]
fn probe_dap_seq_under_lock() {
    let io: Arc<Mutex<dyn DapTransport>> = Arc::new(Mutex::new(Rec2));
    let mut s = DebugSession::new(io);
    unsafe {
        ADV_SEQ = Some(s.server_seq.clone());
        ADV_BUDGET = 1;
    }
    let r1 = s.send_event_raw("stopped", None);
    assert!(r1.is_ok());
    let n = unsafe { W2_N };
    let w = unsafe { W2 };
    kani::cover!(n == 2);
    // wire order must be strictly increasing
    let mut i = 1;
    while i < 6 {
        if i < n {
            assert!(w[i - 1] < w[i], "BSV: seq increases in wire order");
        }
        i += 1;
    }
    std::mem::forget(r1);
    std::mem::forget(s);
}

// ---------------- C12-b: lifecycle latch ----------------
static mut EV: [u8; 8] = [0; 8]; // 1 = exited, 2 = terminated, 3 = output, 4 = stopped, 9 = other
static mut EV_N: usize = 0;

fn ev_code(name: &str) -> u8 {
    if name == "exited" { 1 } else if name == "terminated" { 2 } else if name == "output" { 3 } else if name == "stopped" { 4 } else { 9 }
}

fn stub_send_event_named(
    _seq: i64,
    _io: &mut dyn DapTransport,
    name: &'static str,
    _body: Option<Value>,
) -> anyhow::Result<()> {
    unsafe {
        if EV_N < 8 {
            EV[EV_N] = ev_code(name);
        }
        EV_N += 1;
    }
    Ok(())
}

fn any_event() -> InternalEvent {
    let k: u8 = kani::any();
    kani::assume(k < 4);
    match k {
        0 => InternalEvent::Exited { code: kani::any() },
        1 => InternalEvent::Terminated,
        2 => InternalEvent::Output { category: "stdout", output: String::new() },
        _ => InternalEvent::Continued { thread_id: None, all_threads_continued: true },
    }
}

#[kani::proof]
#[kani::stub(std::backtrace::Backtrace::capture, no_backtrace)]
#[kani::stub(std::hash::RandomState::new, fixed_random_state)]
#[kani::stub(crate::dap::yadap::protocol::send_event, stub_send_event_named)]
#[kani::unwind(10)]
fn probe_dap_latch() {
    let io: Arc<Mutex<dyn DapTransport>> = Arc::new(Mutex::new(Rec2));
    let mut s = DebugSession::new(io);
    s.events.push(any_event());
    s.events.push(any_event());
    let r1 = s.drain_events();
    s.events.push(any_event());
    let r2 = s.drain_events();
    assert!(r1.is_ok() && r2.is_ok());
    let n = unsafe { EV_N };
    let ev = unsafe { EV };
    // nothing after `terminated`; at most one `terminated`, at most one `exited`, exited before terminated
    let mut seen_term = false;
    let mut seen_exit = false;
    let mut i = 0;
    while i < 8 {
        if i < n {
            assert!(!seen_term, "BSV: nothing is sent after terminated");
            if ev[i] == 1 {
                assert!(!seen_exit, "BSV: exited at most once");
                seen_exit = true;
            }
            if ev[i] == 2 {
                seen_term = true;
            }
        }
        i += 1;
    }
    kani::cover!(seen_term && seen_exit);
    kani::cover!(n == 0);
    std::mem::forget((r1, r2));
    std::mem::forget(s);
}
