use super::*;
use nix::libc::{siginfo_t, user_regs_struct};

static mut REGS: Option<user_regs_struct> = None;
static mut SI_CODE: i32 = 0;

fn stub_getregs(_pid: Pid) -> nix::Result<user_regs_struct> {
    Ok(unsafe { REGS.unwrap() })
}
fn stub_setregs(_pid: Pid, regs: user_regs_struct) -> nix::Result<()> {
    unsafe { REGS = Some(regs) };
    Ok(())
}
fn stub_getsiginfo(_pid: Pid) -> nix::Result<siginfo_t> {
    let mut si: siginfo_t = unsafe { std::mem::zeroed() };
    si.si_signo = nix::libc::SIGTRAP;
    si.si_code = unsafe { SI_CODE };
    Ok(si)
}
fn fixed_random_state() -> std::hash::RandomState {
    unsafe { std::mem::transmute::<(u64, u64), std::hash::RandomState>((1u64, 2u64)) }
}

#[kani::proof]
#[kani::stub(nix::sys::ptrace::getregs, stub_getregs)]
#[kani::stub(nix::sys::ptrace::setregs, stub_setregs)]
#[kani::stub(nix::sys::ptrace::getsiginfo, stub_getsiginfo)]
#[kani::stub(std::hash::RandomState::new, fixed_random_state)]
#[kani::unwind(8)]
fn probe_tracer_brkpt_stop() {
    let pid = Pid::from_raw(7);
    let mut regs: user_regs_struct = unsafe { std::mem::zeroed() };
    let rip: u64 = kani::any();
    kani::assume(rip >= 1);
    regs.rip = rip;
    unsafe { REGS = Some(regs) };
    unsafe { SI_CODE = if kani::any() { code::TRAP_BRKPT } else { code::SI_KERNEL } };

    let bp_addr: u64 = kani::any();
    let bp = Breakpoint::new(std::path::PathBuf::new(), RelocatedAddress::from(bp_addr), pid, None);
    // environment contract: a breakpoint trap only arrives from a byte we patched
    kani::assume(bp_addr == rip - 1);
    let bps = [&bp];
    let wps = WatchpointRegistry::default();
    let tcx = TraceContext::new(&bps, &wps);
    let mut tracer = Tracer::new(pid);
    // thread is running when the event arrives
    tracer.tracee_ctl.tracee_ensure_mut(pid).status = TraceeStatus::Running;

    let r = tracer.apply_new_status(tcx, WaitStatus::Stopped(pid, Signal::SIGTRAP));
    match &r {
        Ok(Some(StopReason::Breakpoint(p, pc))) => {
            assert!(*p == pid);
            assert!(pc.as_u64() == rip - 1);
            assert!(unsafe { REGS.unwrap().rip } == rip - 1);
            assert!(tracer.tracee_ctl.tracee_ensure(pid).is_stopped());
        }
        _ => assert!(false),
    }
    std::mem::forget(r);
    std::mem::forget(tracer);
    std::mem::forget(bp);
    std::mem::forget(wps);
}

// ---------------- C10: injection queue conservation ----------------
static mut CONT_LOG: [(i32, i32); 4] = [(0, 0); 4]; // (pid, signal or 0)
static mut CONT_N: usize = 0;
static mut WAIT_N: usize = 0;

fn stub_cont<T: Into<Option<Signal>>>(pid: Pid, sig: T) -> nix::Result<()> {
    let sig: Option<Signal> = sig.into();
    unsafe {
        if CONT_N < 4 {
            CONT_LOG[CONT_N] = (pid.as_raw(), match sig { Some(s) => s as i32, None => 0 });
        }
        CONT_N += 1;
    }
    Ok(())
}

fn stub_waitpid<P: Into<Option<Pid>>>(_pid: P, _opts: Option<nix::sys::wait::WaitPidFlag>) -> nix::Result<WaitStatus> {
    unsafe { WAIT_N += 1 };
    // the whole process exits: ends Tracer::resume
    Ok(WaitStatus::Exited(Pid::from_raw(7), 0))
}

fn stub_interrupt(_pid: Pid) -> nix::Result<()> {
    Ok(())
}

fn stub_group_stop(_this: &mut Tracer, _tcx: TraceContext, _initiator: Pid) -> Result<(), Error> {
    Ok(())
}

fn sig_of(b: bool) -> Signal {
    if b { Signal::SIGUSR1 } else { Signal::SIGUSR2 }
}

fn run_queue(end_marker: bool) {
    let p7 = Pid::from_raw(7);
    let p8 = Pid::from_raw(8);
    let wps = WatchpointRegistry::default();
    let bps: [&Breakpoint; 0] = [];
    let tcx = TraceContext::new(&bps, &wps);
    let mut tracer = Tracer::new_external(p7, &[p7, p8]);
    // both threads are in signal-delivery-stop / interrupted: stopped
    let first_pid = p8;
    let second_pid = p8;
    let s1 = sig_of(kani::any());
    let s2 = sig_of(kani::any());
    tracer.inject_signal_queue.push_back((first_pid, s1));
    tracer.inject_signal_queue.push_back((second_pid, s2));

    let r = tracer.resume(tcx);
    // first resume must return SignalStop for the second entry (more signals pending)
    let n = unsafe { CONT_N };
    let log = unsafe { CONT_LOG };
    // conservation: the popped entry (first_pid, s1) was delivered by exactly one cont
    let mut delivered = 0;
    let mut i = 0;
    while i < 3 {
        if i < n && log[i].0 == first_pid.as_raw() && log[i].1 == s1 as i32 {
            delivered += 1;
        }
        i += 1;
    }
    assert!(delivered == 1, "BSV: popped signal delivered exactly once");
    if end_marker { assert!(false, "BSV-TWIN: end reachable"); }
    std::mem::forget(r);
    std::mem::forget(tracer);
    std::mem::forget(wps);
}

#[kani::proof]
#[kani::stub(Tracer::group_stop_interrupt, stub_group_stop)]
#[kani::stub(nix::sys::ptrace::cont, stub_cont)]
#[kani::stub(nix::sys::ptrace::interrupt, stub_interrupt)]
#[kani::stub(nix::sys::wait::waitpid, stub_waitpid)]
#[kani::stub(nix::sys::ptrace::getregs, stub_getregs)]
#[kani::stub(nix::sys::ptrace::setregs, stub_setregs)]
#[kani::stub(nix::sys::ptrace::getsiginfo, stub_getsiginfo)]
#[kani::stub(std::hash::RandomState::new, fixed_random_state)]
#[kani::unwind(4)]
fn probe_queue_conservation() { run_queue(false); }

#[kani::proof]
#[kani::stub(Tracer::group_stop_interrupt, stub_group_stop)]
#[kani::stub(nix::sys::ptrace::cont, stub_cont)]
#[kani::stub(nix::sys::ptrace::interrupt, stub_interrupt)]
#[kani::stub(nix::sys::wait::waitpid, stub_waitpid)]
#[kani::stub(nix::sys::ptrace::getregs, stub_getregs)]
#[kani::stub(nix::sys::ptrace::setregs, stub_setregs)]
#[kani::stub(nix::sys::ptrace::getsiginfo, stub_getsiginfo)]
#[kani::stub(std::hash::RandomState::new, fixed_random_state)]
#[kani::unwind(4)]
fn probe_queue_conservation_twin() { run_queue(true); }
