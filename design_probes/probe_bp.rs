// probe harnesses for breakpoint.rs
use super::*;
use nix::libc::c_long;

const BASE: usize = 0x1000;
const MEM_LEN: usize = 24;
static mut MEM: [u8; MEM_LEN] = [0; MEM_LEN];

fn stub_read(_pid: Pid, addr: *mut c_void) -> nix::Result<c_long> {
    let a = addr as usize;
    if a < BASE || a > BASE + MEM_LEN - 8 {
        return Err(nix::errno::Errno::EIO);
    }
    let off = a - BASE;
    let mut w = [0u8; 8];
    let mut i = 0;
    while i < 8 {
        w[i] = unsafe { MEM[off + i] };
        i += 1;
    }
    Ok(c_long::from_ne_bytes(w))
}

unsafe fn stub_write(_pid: Pid, addr: *mut c_void, data: *mut c_void) -> nix::Result<()> {
    let a = addr as usize;
    if a < BASE || a > BASE + MEM_LEN - 8 {
        return Err(nix::errno::Errno::EIO);
    }
    let off = a - BASE;
    let w = (data as usize).to_ne_bytes();
    let mut i = 0;
    while i < 8 {
        unsafe { MEM[off + i] = w[i] };
        i += 1;
    }
    Ok(())
}

#[kani::proof]
#[kani::stub(nix::sys::ptrace::read, stub_read)]
#[kani::stub(nix::sys::ptrace::write, stub_write)]
#[kani::unwind(26)]
fn probe_bp_enable_disable() {
    let init: [u8; MEM_LEN] = kani::any();
    unsafe { MEM = init };
    let off: usize = kani::any();
    kani::assume(off <= MEM_LEN - 8);
    let bp = Breakpoint::new_inner(
        RelocatedAddress::from(BASE + off),
        Pid::from_raw(1),
        1,
        None,
        BrkptType::UserDefined,
        PathBuf::new(),
    );
    bp.enable().unwrap();
    let m = unsafe { MEM };
    assert!(m[off] == 0xCC);
    let mut i = 0;
    while i < MEM_LEN {
        if i != off {
            assert!(m[i] == init[i]);
        }
        i += 1;
    }
    bp.disable().unwrap();
    let m = unsafe { MEM };
    assert!(m == init);
    std::mem::forget(bp);
}

#[kani::proof]
#[kani::stub(nix::sys::ptrace::read, stub_read)]
#[kani::stub(nix::sys::ptrace::write, stub_write)]
#[kani::stub(std::hash::RandomState::new, fixed_random_state)]
#[kani::unwind(26)]
fn probe_registry_add_remove() {
    let init: [u8; MEM_LEN] = kani::any();
    unsafe { MEM = init };
    let off1: usize = 2;
    let off2: usize = if kani::any() { 5 } else { 2 };
    let mut reg = BreakpointRegistry::default();
    let mk = |off: usize| Breakpoint::new_inner(
        RelocatedAddress::from(BASE + off),
        Pid::from_raw(1),
        1,
        None,
        BrkptType::UserDefined,
        PathBuf::new(),
    );
    let r1 = reg.add_and_enable(mk(off1)).map(|_| ());
    let r2 = reg.add_and_enable(mk(off2)).map(|_| ());
    assert!(r1.is_ok() && r2.is_ok());
    let m = unsafe { MEM };
    assert!(m[off1] == 0xCC && m[off2] == 0xCC, "BSV: both patched");
    let r3 = reg.remove_by_addr(Address::Relocated(RelocatedAddress::from(BASE + off1))).map(|_| ());
    let r4 = reg.remove_by_addr(Address::Relocated(RelocatedAddress::from(BASE + off2))).map(|_| ());
    assert!(r3.is_ok() && r4.is_ok());
    let m = unsafe { MEM };
    let mut i = 0;
    while i < MEM_LEN {
        assert!(m[i] == init[i], "BSV: memory restored");
        i += 1;
    }
    kani::cover!(off2 == 5);
    std::mem::forget((r1, r2, r3, r4));
    std::mem::forget(reg);
}

fn fixed_random_state() -> std::hash::RandomState {
    unsafe { std::mem::transmute::<(u64, u64), std::hash::RandomState>((1u64, 2u64)) }
}

#[kani::proof]
#[kani::stub(std::hash::RandomState::new, fixed_random_state)]
#[kani::unwind(6)]
fn probe_hashmap() {
    let mut m: HashMap<usize, u32> = HashMap::new();
    let k1: usize = 0x1000;
    let k2: usize = if kani::any() { 0x1003 } else { 0x1000 };
    m.insert(k1, 1);
    m.insert(k2, 2);
    assert!(m.get(&k2) == Some(&2));
    if k1 != k2 { assert!(m.get(&k1) == Some(&1)); }
    std::mem::forget(m);
}

#[kani::proof]
#[kani::stub(std::hash::RandomState::new, fixed_random_state)]
#[kani::unwind(4)]
fn probe_hashmap_concrete() {
    let m: HashMap<usize, u32> = HashMap::from([(7usize, 1u32)]);
    let v: u32 = kani::any();
    assert!(m.get(&7) == Some(&1));
    assert!(m.get(&8).is_none());
    let _ = v;
    std::mem::forget(m);
}

#[kani::proof]
#[kani::unwind(4)]
fn probe_hashmap_empty_iter() {
    let m: HashMap<usize, u32> = HashMap::new();
    let mut n = 0;
    for (_k, _v) in m.iter() { n += 1; }
    assert!(n == 0);
    assert!(m.get(&8).is_none());
}

#[kani::proof]
#[kani::stub(nix::sys::ptrace::read, stub_read)]
#[kani::stub(nix::sys::ptrace::write, stub_write)]
#[kani::stub(std::hash::RandomState::new, fixed_random_state)]
#[kani::unwind(4)]
fn probe_registry_tuned() {
    probe_registry_add_remove();
}
