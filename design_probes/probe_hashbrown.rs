use super::*;

const CTRL_BASE: usize = 0x20000;
const CTRL_LEN: usize = 48;
static mut CTRL: [u8; CTRL_LEN] = [0xFF; CTRL_LEN];

fn stub_read_memory(_pid: Pid, addr: usize, n: usize) -> Result<Vec<u8>, nix::Error> {
    if addr < CTRL_BASE || addr + n > CTRL_BASE + CTRL_LEN {
        return Err(nix::errno::Errno::EIO);
    }
    if n != 16 { return Err(nix::errno::Errno::EIO); }
    let mut v = vec![0u8; 16];
    let mut i = 0;
    while i < 16 {
        v[i] = unsafe { CTRL[addr - CTRL_BASE + i] };
        i += 1;
    }
    Ok(v)
}

#[kani::proof]
#[kani::stub(crate::debugger::read_memory_by_pid, stub_read_memory)]
#[kani::unwind(18)]
fn probe_hashbrown_iter() {
    let k: u8 = kani::any();
    kani::assume(k <= 4);
    let buckets: usize = 1usize << k;
    let mut ctrl: [u8; CTRL_LEN] = kani::any();
    // hashbrown invariant: for tables smaller than a group the bytes in [buckets, 16) are EMPTY
    let mut i = 0;
    while i < 16 {
        if i >= buckets { ctrl[i] = 0xFF; }
        i += 1;
    }
    unsafe { CTRL = ctrl };
    let kv_size: usize = kani::any();
    kani::assume(kv_size >= 1 && kv_size <= 24);
    let refl = HashmapReflection::new(CTRL_BASE as *const u8, buckets - 1, kv_size);
    let mut it = refl.iter(Pid::from_raw(1)).unwrap();
    let mut seen = [false; 16];
    let mut n = 0usize;
    loop {
        match it.next().unwrap() {
            None => break,
            Some(b) => {
                let loc = b.location();
                // bucket i lives at ctrl - (i+1)*kv_size
                let dist = CTRL_BASE - loc;
                assert!(dist % kv_size == 0);
                let idx = dist / kv_size - 1;
                assert!(idx < buckets);
                assert!(ctrl[idx] & 0x80 == 0);
                assert!(!seen[idx]);
                seen[idx] = true;
                n += 1;
            }
        }
    }
    let mut j = 0;
    while j < 16 {
        if j < buckets && ctrl[j] & 0x80 == 0 { assert!(seen[j]); }
        j += 1;
    }
    kani::cover!(n == 3);
}

#[kani::proof]
#[kani::stub(crate::debugger::read_memory_by_pid, stub_read_memory)]
#[kani::unwind(18)]
fn probe_hashbrown_iter2() {
    const KV: usize = 24;
    let k: u8 = kani::any();
    kani::assume(k <= 4);
    let buckets: usize = 1usize << k;
    let mut ctrl: [u8; CTRL_LEN] = kani::any();
    let mut i = 0;
    while i < 16 {
        if i >= buckets { ctrl[i] = 0xFF; }
        i += 1;
    }
    unsafe { CTRL = ctrl };
    let refl = HashmapReflection::new(CTRL_BASE as *const u8, buckets - 1, KV);
    let mut it = refl.iter(Pid::from_raw(1)).unwrap();
    let mut seen = [false; 16];
    loop {
        match it.next().unwrap() {
            None => break,
            Some(b) => {
                let loc = b.location();
                let mut idx = 16usize;
                let mut j = 0;
                while j < 16 {
                    if loc == CTRL_BASE - (j + 1) * KV { idx = j; }
                    j += 1;
                }
                assert!(idx < buckets);
                assert!(ctrl[idx] & 0x80 == 0);
                assert!(!seen[idx]);
                seen[idx] = true;
            }
        }
    }
    let mut j = 0;
    while j < 16 {
        if j < buckets && ctrl[j] & 0x80 == 0 { assert!(seen[j]); }
        j += 1;
    }
}

fn run_hb<const BUCKETS: usize, const KV: usize>() {
    let mut ctrl: [u8; CTRL_LEN] = kani::any();
    let mut i = 0;
    while i < 16 {
        if i >= BUCKETS { ctrl[i] = 0xFF; }
        i += 1;
    }
    unsafe { CTRL = ctrl };
    let refl = HashmapReflection::new(CTRL_BASE as *const u8, BUCKETS - 1, KV);
    let mut it = refl.iter(Pid::from_raw(1)).unwrap();
    let mut seen = [false; BUCKETS];
    loop {
        match it.next().unwrap() {
            None => break,
            Some(b) => {
                let loc = b.location();
                let mut idx = BUCKETS;
                let mut j = 0;
                while j < BUCKETS {
                    if loc == CTRL_BASE - (j + 1) * KV { idx = j; }
                    j += 1;
                }
                assert!(idx < BUCKETS, "BSV: yielded bucket exists");
                assert!(ctrl[idx] & 0x80 == 0, "BSV: yielded bucket is FULL");
                assert!(!seen[idx], "BSV: not yielded twice");
                seen[idx] = true;
            }
        }
    }
    let mut j = 0;
    while j < BUCKETS {
        if ctrl[j] & 0x80 == 0 { assert!(seen[j], "BSV: no FULL bucket missed"); }
        j += 1;
    }
}

#[kani::proof]
#[kani::stub(crate::debugger::read_memory_by_pid, stub_read_memory)]
#[kani::unwind(18)]
fn probe_hashbrown_b8() { run_hb::<8, 24>(); }

#[kani::proof]
#[kani::stub(crate::debugger::read_memory_by_pid, stub_read_memory)]
#[kani::unwind(18)]
fn probe_hashbrown_b4() { run_hb::<4, 8>(); }

#[kani::proof]
#[kani::stub(crate::debugger::read_memory_by_pid, stub_read_memory)]
#[kani::unwind(18)]
fn probe_hashbrown_b4_twin() {
    run_hb::<4, 8>();
    assert!(false, "BSV-TWIN: end of harness reachable");
}

// ---- real-allocation variant: debuggee memory is a harness buffer, addresses are its real addresses
const RB: usize = 4;      // buckets
const RKV: usize = 8;     // bucket size
const RLEN: usize = 16 * RKV + 32; // room for one group of buckets below ctrl + 32 ctrl bytes
static mut RBUF: [u8; RLEN] = [0; RLEN];

fn stub_read_memory_real(_pid: Pid, addr: usize, n: usize) -> Result<Vec<u8>, nix::Error> {
    let base = unsafe { (std::ptr::addr_of!(RBUF) as *const u8) as usize };
    if n != 16 || addr < base || addr + n > base + RLEN {
        return Err(nix::errno::Errno::EIO);
    }
    let off = addr - base;
    let mut v = vec![0u8; 16];
    let mut i = 0;
    while i < 16 {
        v[i] = unsafe { RBUF[off + i] };
        i += 1;
    }
    Ok(v)
}

fn run_real(end_marker: bool) {
    let mut buf: [u8; RLEN] = kani::any();
    let ctrl_off = 16 * RKV;
    let mut i = 0;
    while i < 16 {
        if i >= RB { buf[ctrl_off + i] = 0xFF; }
        i += 1;
    }
    unsafe { RBUF = buf };
    let ctrl_ptr = unsafe { (std::ptr::addr_of!(RBUF) as *const u8).add(ctrl_off) };
    let ctrl_addr = ctrl_ptr as usize;
    let refl = HashmapReflection::new(ctrl_ptr, RB - 1, RKV);
    let mut it = refl.iter(Pid::from_raw(1)).unwrap();
    let mut seen = [false; RB];
    loop {
        match it.next().unwrap() {
            None => break,
            Some(b) => {
                let loc = b.location();
                let mut idx = RB;
                let mut j = 0;
                while j < RB {
                    if loc == ctrl_addr - (j + 1) * RKV { idx = j; }
                    j += 1;
                }
                assert!(idx < RB, "BSV: yielded bucket exists");
                assert!(buf[ctrl_off + idx] & 0x80 == 0, "BSV: yielded bucket is FULL");
                assert!(!seen[idx], "BSV: not yielded twice");
                seen[idx] = true;
            }
        }
    }
    let mut j = 0;
    while j < RB {
        if buf[ctrl_off + j] & 0x80 == 0 { assert!(seen[j], "BSV: no FULL bucket missed"); }
        j += 1;
    }
    kani::cover!(seen[0] && seen[3] && !seen[1]);
    if end_marker { assert!(false, "BSV-TWIN: end reachable"); }
}

#[kani::proof]
#[kani::stub(crate::debugger::read_memory_by_pid, stub_read_memory_real)]
#[kani::unwind(18)]
fn probe_hashbrown_real() { run_real(false); }

#[kani::proof]
#[kani::stub(crate::debugger::read_memory_by_pid, stub_read_memory_real)]
#[kani::unwind(18)]
fn probe_hashbrown_real_twin() { run_real(true); }

#[kani::proof]
#[kani::stub(crate::debugger::read_memory_by_pid, stub_read_memory_real)]
#[kani::unwind(6)]
fn probe_hashbrown_real_twin6() { run_real(true); }
