use super::*;
use nix::libc::c_long;
use std::ffi::c_void;

static mut DREGS: [usize; 8] = [0; 8];

fn dr_index(off: usize) -> usize {
    let base = std::mem::offset_of!(nix::libc::user, u_debugreg);
    (off - base) / 8
}
fn stub_read_user(_pid: Pid, offset: *mut c_void) -> nix::Result<c_long> {
    Ok(unsafe { DREGS[dr_index(offset as usize)] } as c_long)
}
unsafe fn stub_write_user(_pid: Pid, offset: *mut c_void, data: *mut c_void) -> nix::Result<()> {
    unsafe { DREGS[dr_index(offset as usize)] = data as usize };
    Ok(())
}
fn fixed_random_state() -> std::hash::RandomState {
    unsafe { std::mem::transmute::<(u64, u64), std::hash::RandomState>((1u64, 2u64)) }
}

#[kani::proof]
#[kani::stub(nix::sys::ptrace::read_user, stub_read_user)]
#[kani::stub(nix::sys::ptrace::write_user, stub_write_user)]
#[kani::stub(std::hash::RandomState::new, fixed_random_state)]
#[kani::unwind(10)]
fn probe_hw_enable() {
    let dr7: usize = kani::any();
    // only local-enable bits, condition/len fields and LE bit may be set by the debugger
    kani::assume(dr7 & !0xFFFF_0155usize == 0);
    let a: [usize; 4] = kani::any();
    unsafe { DREGS = [a[0], a[1], a[2], a[3], 0, 0, 0, dr7] };
    let ctl = TraceeCtl::new_external(Pid::from_raw(7), &[]);
    let addr: usize = kani::any();
    let mut hw = HardwareBreakpoint::new(RelocatedAddress::from(addr), BreakSize::Bytes4, BreakCondition::DataWrites);
    let res = hw.enable(&ctl);
    let free = (0..4).find(|i| dr7 & (1 << (2 * i)) == 0);
    match free {
        None => assert!(res.is_err()),
        Some(slot) => {
            assert!(res.is_ok());
            let st = res.as_ref().unwrap();
            let d: [usize; 8] = [st.address_regs[0], st.address_regs[1], st.address_regs[2], st.address_regs[3], 0, 0, 0,
                unsafe { std::mem::transmute_copy::<_, usize>(&st.dr7) }];
            assert!(d[slot] == addr);
            assert!(d[7] & (1 << (2 * slot)) != 0);
            assert!((d[7] >> (16 + 4 * slot)) & 0xF == 0b1101);
            // other slots untouched
            let mut j = 0;
            while j < 4 {
                if j != slot {
                    assert!(d[j] == a[j]);
                    assert!((d[7] >> (16 + 4 * j)) & 0xF == (dr7 >> (16 + 4 * j)) & 0xF);
                    assert!((d[7] >> (2 * j)) & 3 == (dr7 >> (2 * j)) & 3);
                }
                j += 1;
            }
        }
    }
    std::mem::forget(res);
    std::mem::forget(ctl);
}
