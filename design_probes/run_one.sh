#!/bin/bash
# usage: run2.sh harness timeout  (verbose, memory capped)
cd /tmp/probe/repo
H=$1; T=${2:-300}
START=$(date +%s)
( ulimit -v 12000000; CARGO_NET_OFFLINE=true timeout $T cargo kani -Z stubbing --harness $H --target-dir /tmp/probe/kt > /tmp/probe/vlog_$H.txt 2>&1 )
RC=$?
END=$(date +%s)
echo "$H rc=$RC wall=$((END-START))s $(grep -E 'VERIFICATION:-|Verification Time|^ \*\* |size of program|Generated' /tmp/probe/vlog_$H.txt | tr '\n' ' ') FAILS: $(grep -B3 'Status: FAILURE' /tmp/probe/vlog_$H.txt | grep -E 'Description' | sort | uniq -c | tr '\n' ';' | cut -c1-600)"
