// child of src/dap/yadap/session/data.rs
use super::*;
use std::mem::MaybeUninit;

const BASE: usize = 0x1000;
const MEM_LEN: usize = 32;
static mut MEM: [u8; MEM_LEN] = [0; MEM_LEN];

fn stub_read_memory(_this: &debugger::Debugger, addr: usize, n: usize) -> Result<Vec<u8>, debugger::Error> {
    if n != 8 || addr < BASE || addr + 8 > BASE + MEM_LEN {
        return Err(debugger::Error::ProcessNotStarted);
    }
    let mut v = vec![0u8; 8];
    let mut i = 0;
    while i < 8 {
        v[i] = unsafe { MEM[addr - BASE + i] };
        i += 1;
    }
    Ok(v)
}

fn stub_write_memory(_this: &debugger::Debugger, addr: usize, value: usize) -> Result<(), debugger::Error> {
    if addr < BASE || addr + 8 > BASE + MEM_LEN {
        return Err(debugger::Error::ProcessNotStarted);
    }
    let w = value.to_le_bytes();
    let mut i = 0;
    while i < 8 {
        unsafe { MEM[addr - BASE + i] = w[i] };
        i += 1;
    }
    Ok(())
}

fn no_backtrace() -> std::backtrace::Backtrace {
    std::backtrace::Backtrace::disabled()
}

fn run<const LEN: usize>() {
    let init: [u8; MEM_LEN] = kani::any();
    unsafe { MEM = init };
    let off: usize = kani::any();
    kani::assume(off <= 8);
    let data: [u8; LEN] = kani::any();
    let fake = MaybeUninit::<debugger::Debugger>::uninit();
    let dbg: &debugger::Debugger = unsafe { &*fake.as_ptr() };
    let r = write_bytes(dbg, BASE + off, &data);
    assert!(r.is_ok(), "BSV: write succeeds inside the window");
    std::mem::forget(r);
    let m = unsafe { MEM };
    let mut i = 0;
    while i < MEM_LEN {
        if i >= off && i < off + LEN {
            assert!(m[i] == data[i - off], "BSV: written byte");
        } else {
            assert!(m[i] == init[i], "BSV: untouched byte");
        }
        i += 1;
    }
    kani::cover!(off == 7);
}

#[kani::proof]
#[kani::stub(debugger::Debugger::read_memory, stub_read_memory)]
#[kani::stub(debugger::Debugger::write_memory, stub_write_memory)]
#[kani::stub(std::backtrace::Backtrace::capture, no_backtrace)]
#[kani::unwind(34)]
fn probe_write_bytes_9() {
    run::<9>();
}

#[kani::proof]
#[kani::stub(debugger::Debugger::read_memory, stub_read_memory)]
#[kani::stub(debugger::Debugger::write_memory, stub_write_memory)]
#[kani::stub(std::backtrace::Backtrace::capture, no_backtrace)]
#[kani::unwind(34)]
fn probe_write_bytes_1() {
    run::<1>();
}
