// (not loaded by the driver: over budget, see DESIGN 11.7)  inject: src/debugger/variable/value/specialization/btree.rs
//
// C06-d — the order in which the debugger walks a BTreeMap / BTreeSet of the debuggee: KVIterator::next over
// Handle::{is_right_kv, data, next_leaf_edge, first_leaf_edge, try_ascend}.  Node *decoding* (Leaf::from_bytes,
// Internal::from_markup: DWARF member lookup + memory reads) is cut: BTreeReflection::make_node is stubbed to
// hand out harness-built nodes by address.  What runs is the real traversal: idx arithmetic, descent through
// edges[idx + 1], ascent through (parent, parent_idx), slicing of keys_raw / vals_raw.
use super::*;
use std::mem::MaybeUninit;
use std::ptr::addr_of_mut;

macro_rules! bsv {
    ($c:expr, $m:literal) => {
        assert!($c, concat!("BSV: ", $m))
    };
}

// a height-1 tree: root (internal) with RK keys and RK + 1 children, child i holds LEN[i] keys
const MAXK: usize = 1; // keys per node (instance bound; std's B = 6 allows 11; MAXK = 2 did not finish in 40 min)
const ROOT: usize = 0x1000;
const CHILD0: usize = 0x2000;
const CHILD_STRIDE: usize = 0x100;

static mut RK: usize = 0;
static mut ROOT_KEYS: [u8; MAXK] = [0; MAXK];
static mut ROOT_VALS: [u8; MAXK] = [0; MAXK];
static mut LEN: [usize; MAXK + 1] = [0; MAXK + 1];
static mut KEYS: [[u8; MAXK]; MAXK + 1] = [[0; MAXK]; MAXK + 1];
static mut VALS: [[u8; MAXK]; MAXK + 1] = [[0; MAXK]; MAXK + 1];
static mut MADE: usize = 0;
static mut BAD_REQUEST: bool = false;

fn mk_leaf(parent: Option<NonNull<()>>, parent_idx: u16, len: usize, k: &[u8; MAXK], v: &[u8; MAXK], at: usize) -> Leaf {
    let mut keys_raw = Vec::with_capacity(MAXK);
    let mut vals_raw = Vec::with_capacity(MAXK);
    let mut i = 0;
    while i < MAXK {
        keys_raw.push(k[i]);
        vals_raw.push(v[i]);
        i += 1;
    }
    Leaf {
        parent,
        parent_idx,
        len: len as u16,
        keys_debugee_location: Some(at + 16),
        keys_raw,
        vals_debugee_location: Some(at + 64),
        vals_raw,
    }
}

fn stub_make_node<'a>(
    _this: &BTreeReflection<'a>,
    _evcx: &EvaluationContext,
    node_ptr: *const (),
    height: usize,
) -> Result<Node, ParsingError>
where
    'a: 'a,
{
    let p = node_ptr as usize;
    unsafe {
        MADE += 1;
        if p == ROOT {
            if height != 1 {
                BAD_REQUEST = true;
            }
            let leaf = mk_leaf(None, 0, RK, &*std::ptr::addr_of!(ROOT_KEYS), &*std::ptr::addr_of!(ROOT_VALS), ROOT);
            let mut edges = [std::ptr::null::<()>(); 2 * B];
            let mut i = 0;
            while i <= MAXK {
                edges[i] = (CHILD0 + i * CHILD_STRIDE) as *const ();
                i += 1;
            }
            return Ok(Node { data: LeafOrInternal::Internal(Internal { leaf, edges }), height });
        }
        let mut i = 0;
        while i <= MAXK {
            if p == CHILD0 + i * CHILD_STRIDE {
                if height != 0 || i > RK {
                    BAD_REQUEST = true;
                }
                let leaf = mk_leaf(NonNull::new(ROOT as *mut ()), i as u16, LEN[i], &(*std::ptr::addr_of!(KEYS))[i], &(*std::ptr::addr_of!(VALS))[i], p);
                return Ok(Node { data: LeafOrInternal::Leaf(leaf), height });
            }
            i += 1;
        }
        BAD_REQUEST = true;
    }
    Err(ParsingError::Assume(AssumeError::NoData("bsv: no such node")))
}

fn walk_height1() {
    let rk: usize = kani::any();
    kani::assume(rk >= 1 && rk <= MAXK);
    let lens: [usize; MAXK + 1] = kani::any();
    let mut i = 0;
    while i <= MAXK {
        // std keeps every non-root node non-empty; an empty child is also run (len 0 is skipped, nothing invented)
        kani::assume(lens[i] <= MAXK);
        i += 1;
    }
    unsafe {
        RK = rk;
        ROOT_KEYS = kani::any();
        ROOT_VALS = kani::any();
        LEN = lens;
        KEYS = kani::any();
        VALS = kani::any();
    }
    // expected in-order sequence: child0 keys, root key 0, child1 keys, root key 1, child2 keys
    let mut want_k = [0u8; (MAXK + 1) * MAXK + MAXK];
    let mut want_v = [0u8; (MAXK + 1) * MAXK + MAXK];
    let mut want_loc = [0usize; (MAXK + 1) * MAXK + MAXK];
    let mut n = 0;
    let mut c = 0;
    while c <= rk {
        let mut j = 0;
        while j < lens[c] {
            unsafe {
                want_k[n] = KEYS[c][j];
                want_v[n] = VALS[c][j];
            }
            want_loc[n] = CHILD0 + c * CHILD_STRIDE + 16 + j;
            n += 1;
            j += 1;
        }
        if c < rk {
            unsafe {
                want_k[n] = ROOT_KEYS[c];
                want_v[n] = ROOT_VALS[c];
            }
            want_loc[n] = ROOT + 16 + c;
            n += 1;
        }
        c += 1;
    }

    let mut it = MaybeUninit::<KVIterator>::uninit();
    let p = it.as_mut_ptr();
    unsafe {
        addr_of_mut!((*p).reflection.root).write(ROOT as *const ());
        addr_of_mut!((*p).reflection.root_h).write(1);
        addr_of_mut!((*p).handle).write(None);
        addr_of_mut!((*p).k_size).write(1);
        addr_of_mut!((*p).v_size).write(1);
        // evcx is only ever passed on to make_node (stubbed): a well-aligned dangling reference
        addr_of_mut!((*p).evcx).write(&*(NonNull::<EvaluationContext>::dangling().as_ptr()));
    }
    let it: &mut KVIterator = unsafe { &mut *p };

    let mut got = 0;
    let mut rounds = 0;
    while rounds <= (MAXK + 1) * MAXK + MAXK {
        match it.next() {
            Ok(Some((k, v))) => {
                bsv!(got < n, "nothing invented: no more pairs than the tree holds");
                if got < n {
                    bsv!(k.raw_data.len() == 1 && v.raw_data.len() == 1, "each pair carries exactly one key and one value of the element size");
                    bsv!(k.raw_data[0] == want_k[got], "keys come in the tree's in-order sequence");
                    bsv!(v.raw_data[0] == want_v[got], "every key is paired with its own value");
                    bsv!(k.address == Some(want_loc[got]), "the key's address in the debuggee is that of its slot");
                }
                got += 1;
                std::mem::forget(k);
                std::mem::forget(v);
            }
            Ok(None) => break,
            Err(_) => {
                bsv!(false, "walking a well-formed tree does not fail");
                break;
            }
        }
        rounds += 1;
    }
    bsv!(got == n, "nothing missing: every pair of the tree is reported");
    bsv!(unsafe { !BAD_REQUEST }, "only nodes of the tree are requested, at their own height");
    kani::cover!(rk == MAXK && n == (MAXK + 1) * MAXK + MAXK, "full tree: every node full");
    kani::cover!(rk == 1 && lens[0] == 1 && lens[1] == MAXK, "two children of different fill");
    kani::cover!(lens[0] == 0 && n > 1, "an empty leftmost child is skipped");
    kani::cover!(true, "BSV-END");
}

//@ harness: c06_btree_walk_h1
//@ property: C06
//@ obligation: H-C06-d
//@ tier: quick
//@ encodes: KVIterator::next, Handle::{is_right_kv, data, next_leaf_edge, first_leaf_edge, try_ascend, node_is_leaf}, LeafOrInternal::{len, leaf, internal}
//@ symbolic: a height-1 B-tree: one root key, the fill of each of the two leaves (0..1 keys), every key and value byte
//@ bounds: height 1, one key per node (std allows 11; the two-keys-per-node instance ran 40 min without finishing symbolic execution), 1-byte keys and values; at most 3 pairs; loops bounded per function
//@ oracle: the pairs reported are exactly the in-order sequence child0, root[0], child1, root[1], child2 - nothing missing, duplicated or invented, each key with its own value and its own debuggee address
//@ stubs: BTreeReflection::make_node -> harness-built nodes by address (node decoding from DWARF markup + memory is cut)
//@ assumes: a well-formed tree (parent / parent_idx / edges consistent); hostile node contents belong to C08
//@ outside: Leaf::from_bytes / Internal::from_markup (member lookup by DWARF name, transmutes), trees of height >= 2, key/value decoding
//@ unwindset: walk_height1=10; ?make_node=5; ?mk_leaf=4; ?KVIterator.*next=5; ?next_leaf_edge=3; ?first_leaf_edge=3
//@ timeout: 1500
//@ mem_gb: 16
#[kani::proof]
#[kani::stub(BTreeReflection::make_node, stub_make_node)]
#[kani::unwind(10)]
fn c06_btree_walk_h1() {
    walk_height1();
}
