use super::*;

fn mk(n: usize) -> ArrayValue {
    let mut items = Vec::new();
    let mut i = 0;
    while i < n {
        items.push(ArrayItem {
            index: i as i64,
            value: Value::Scalar(ScalarValue {
                value: Some(SupportedScalar::U8(i as u8)),
                raw_address: None,
                type_ident: TypeIdentity::unknown(),
                type_id: None,
            }),
        });
        i += 1;
    }
    ArrayValue { type_ident: TypeIdentity::unknown(), type_id: None, items: Some(items), raw_address: None }
}

#[kani::proof]
#[kani::unwind(8)]
fn probe_array_slice() {
    let n: usize = kani::any();
    kani::assume(n <= 4);
    let mut arr = mk(n);
    let l: usize = kani::any();
    let r: usize = kani::any();
    kani::assume(l <= 6 && r <= 6);
    let left = if kani::any() { Some(l) } else { None };
    let right = if kani::any() { Some(r) } else { None };
    arr.slice(left, right);
    let lo = left.unwrap_or(0);
    let hi = right.unwrap_or(n);
    let items = arr.items.as_ref().unwrap();
    if lo <= hi && hi <= n {
        assert!(items.len() == hi - lo);
    }
    std::mem::forget(arr);
}

fn mk_fixed<const N: usize>() -> ArrayValue {
    let mut items = Vec::with_capacity(N);
    let mut i = 0;
    while i < N {
        items.push(ArrayItem {
            index: i as i64,
            value: Value::Scalar(ScalarValue {
                value: Some(SupportedScalar::U8(i as u8)),
                raw_address: None,
                type_ident: TypeIdentity::unknown(),
                type_id: None,
            }),
        });
        i += 1;
    }
    ArrayValue { type_ident: TypeIdentity::unknown(), type_id: None, items: Some(items), raw_address: None }
}

#[kani::proof]
#[kani::unwind(6)]
fn probe_array_slice_n3() {
    const N: usize = 3;
    let mut arr = mk_fixed::<N>();
    let l: usize = kani::any();
    let r: usize = kani::any();
    kani::assume(l <= 4 && r <= 4);
    let left = if kani::any() { Some(l) } else { None };
    let right = if kani::any() { Some(r) } else { None };
    arr.slice(left, right);
    let lo = left.unwrap_or(0);
    let hi = right.unwrap_or(N);
    let items = arr.items.as_ref().unwrap();
    if lo <= hi && hi <= N {
        assert!(items.len() == hi - lo, "BSV: slice length");
        if hi > lo {
            assert!(items[0].index == lo as i64, "BSV: first element");
        }
    }
    std::mem::forget(arr);
}

#[kani::proof]
#[kani::unwind(5)]
fn probe_array_slice_famR() {
    const N: usize = 3;
    let mut arr = mk_fixed::<N>();
    let r: usize = kani::any();
    kani::assume(r <= 5);
    arr.slice(Some(1), Some(r));
    let items = arr.items.as_ref().unwrap();
    if r >= 1 && r <= N {
        assert!(items.len() == r - 1, "BSV: slice length");
    }
    kani::cover!(r == 0);
    kani::cover!(r == 5);
    std::mem::forget(arr);
}

#[kani::proof]
#[kani::unwind(5)]
fn probe_array_slice_famL() {
    const N: usize = 3;
    let mut arr = mk_fixed::<N>();
    let l: usize = kani::any();
    kani::assume(l <= 5);
    arr.slice(Some(l), None);
    let items = arr.items.as_ref().unwrap();
    if l <= N {
        assert!(items.len() == N - l, "BSV: slice length");
    }
    std::mem::forget(arr);
}
