#!/usr/bin/env python3
"""seed_meta.py <seed-id> <property> <needs> [--demo CMD] — write seeded/<id>/meta.json from the confirmation log"""
import json, os, re, sys
sid, prop, needs = sys.argv[1], sys.argv[2], sys.argv[3]
demo = sys.argv[5] if len(sys.argv) > 5 and sys.argv[4] == "--demo" else None
d = os.path.join(os.path.dirname(os.path.dirname(os.path.abspath(__file__))), "seeded", sid)
log = open(os.path.join(d, "confirm.log")).read() if os.path.exists(os.path.join(d, "confirm.log")) else ""
m = re.search(r"RESULT id=\S+ property=\S+ suite_rc=(\d+) demo_with_patch_rc=(\d+) demo_without_patch_rc=(\d+)", log)
meta_path = os.path.join(d, "meta.json")
meta = json.load(open(meta_path)) if os.path.exists(meta_path) else {}
meta.update({
    "id": sid, "property": prop, "needs_to_manifest": needs,
    "files": {"patch": "patch.diff", "demonstration": "demo.diff", "author_notes": "agent_README.md"},
    "produced_by": "independent sub-agent given only the property text and a scratch worktree",
    "confirmed": {
        "how": "tools/confirm_seed.sh in a scratch worktree: patch applies and builds; the pinned suite "
               "(stable_pass list of /root/.vp/BASELINE.json) with the patch; the demonstration with and without the patch",
        "suite_with_patch_all_stable_pass": (m.group(1) == "0") if m else None,
        "demo_with_patch_fails": (m.group(2) != "0") if m else None,
        "demo_without_patch_passes": (m.group(3) == "0") if m else None,
        "demo_cmd": demo,
    },
})
meta.setdefault("checks", {})
json.dump(meta, open(meta_path, "w"), indent=1)
print(meta_path)
