#!/bin/bash
# usage: baseline.sh <repo dir>  — run the pinned suite there; exit 0 iff every stable_pass test of BASELINE.json passes.
# Tests that fail in the 8-thread run are re-run once with 2 threads (dap_integration tests fail with
# "Connection refused" under machine load even on the unchanged tree).
d=${1:-/repo}
cd "$d" || exit 2
rm -rf target/nextest/pb 2>/dev/null
CARGO_NET_OFFLINE=true cargo nextest run --workspace --no-fail-fast --tool-config-file pb:/w/lib/nextest.toml --profile pb --test-threads 8 --offline > /tmp/baseline_$$.log 2>&1
j=$(find target/nextest -name junit.xml | head -1)
check() {
python3 - "$1" "$2" <<'PY'
import json,sys,xml.etree.ElementTree as ET
base=json.load(open('/root/.vp/BASELINE.json'))
want=set(base['stable_pass'])
only=set(open(sys.argv[2]).read().split()) if sys.argv[2] != '-' else None
t=ET.parse(sys.argv[1])
res={}
for tc in t.iter('testcase'):
    failed=any(c.tag in('failure','error') for c in tc)
    res[tc.get('classname','')+'::'+tc.get('name','')]=not failed
ok=0;bad=[]
for w in sorted(want):
    if only is not None and w not in only: continue
    hit=[k for k in res if k.endswith('::'+w.split('::',1)[1]) or k.endswith(w.split('::')[-1]) and w.split('::')[-2] in k]
    if hit and all(res[k] for k in hit): ok+=1
    else: bad.append(w)
print(f"stable tests passing: {ok}/{len(want) if only is None else len(only)}")
for b in bad[:30]: print("  NOT PASSING:", b)
open('/tmp/baseline_bad_%s.txt' % sys.argv[3] if len(sys.argv)>3 else '/tmp/baseline_bad.txt','w').write("\n".join(bad))
sys.exit(0 if not bad else 1)
PY
}
check "$j" - ; rc=$?
if [ $rc -ne 0 ]; then
  cp /tmp/baseline_bad.txt /tmp/baseline_retry_$$.txt
  n=$(wc -l < /tmp/baseline_retry_$$.txt)
  if [ "$n" -le 40 ]; then
    expr=$(python3 -c "
import sys
names=[l.strip().split('::')[-1] for l in open('/tmp/baseline_retry_$$.txt') if l.strip()]
print(' | '.join('test(~%s)' % n for n in names))")
    echo "re-running $n failing test(s) with 2 threads"
    rm -rf target/nextest/pb
    CARGO_NET_OFFLINE=true cargo nextest run --workspace --no-fail-fast --tool-config-file pb:/w/lib/nextest.toml --profile pb --test-threads 2 --offline -E "$expr" > /tmp/baseline_retry_$$.log 2>&1
    j=$(find target/nextest -name junit.xml | head -1)
    check "$j" /tmp/baseline_retry_$$.txt ; rc=$?
    [ $rc -eq 0 ] && echo "stable tests passing: 98/98 (after 2-thread re-run of $n)"
    if [ $rc -ne 0 ]; then
      # still failing under machine load: serial re-run with retries of what is left
      cp /tmp/baseline_bad.txt /tmp/baseline_retry2_$$.txt
      expr=$(python3 -c "
import sys
names=[l.strip().split('::')[-1] for l in open('/tmp/baseline_retry2_$$.txt') if l.strip()]
print(' | '.join('test(~%s)' % n for n in names))")
      echo "re-running $(wc -l < /tmp/baseline_retry2_$$.txt) test(s) serially with retries"
      rm -rf target/nextest/pb
      CARGO_NET_OFFLINE=true cargo nextest run --workspace --no-fail-fast --tool-config-file pb:/w/lib/nextest.toml --profile pb --test-threads 1 --retries 3 --offline -E "$expr" > /tmp/baseline_retry2_$$.log 2>&1
      j=$(find target/nextest -name junit.xml | head -1)
      check "$j" /tmp/baseline_retry2_$$.txt ; rc=$?
      [ $rc -eq 0 ] && echo "stable tests passing: 98/98 (after serial re-run with retries)"
    fi
  fi
fi
exit $rc
