#!/bin/bash
# usage: baseline.sh <repo dir>  — run the pinned suite there; exit 0 iff every stable_pass test of BASELINE.json passes
d=${1:-/repo}
cd "$d" || exit 2
rm -rf target/nextest/pb 2>/dev/null
CARGO_NET_OFFLINE=true cargo nextest run --workspace --no-fail-fast --tool-config-file pb:/w/lib/nextest.toml --profile pb --test-threads 8 --offline > /tmp/baseline_$$.log 2>&1
j=$(find target/nextest -name junit.xml | head -1)
python3 - "$j" <<'PY'
import json,sys,xml.etree.ElementTree as ET
base=json.load(open('/root/.vp/BASELINE.json'))
want=set(base['stable_pass'])
t=ET.parse(sys.argv[1])
res={}
for tc in t.iter('testcase'):
    name=tc.get('classname','')+'::'+tc.get('name','') if '::' not in tc.get('name','') or not tc.get('name','').startswith('bugstalker') else tc.get('name')
    failed=any(c.tag in('failure','error') for c in tc)
    res[tc.get('classname','')+'::'+tc.get('name','')]=not failed
def norm(k): return k
ok=0;bad=[]
for w in want:
    # baseline names look like bugstalker::dap::dap_integration::test_x ; junit classname is the binary id
    hit=[k for k in res if k.endswith('::'+w.split('::',1)[1]) or k.endswith(w.split('::')[-1]) and w.split('::')[-2] in k]
    if hit and all(res[k] for k in hit): ok+=1
    else: bad.append(w)
print(f"stable tests passing: {ok}/{len(want)}")
for b in bad[:20]: print("  NOT PASSING:", b)
sys.exit(0 if not bad else 1)
PY
