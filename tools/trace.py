#!/usr/bin/env python3
"""trace.py <harness> [substr of description]  — summarise counterexample traces kept in the scratch work dir"""
import json, sys, os
h = sys.argv[1]; sub = sys.argv[2] if len(sys.argv) > 2 else ''
scr = os.environ.get('BSVERIF_SCRATCH', '/var/tmp/bsverif')
d = json.load(open(f'{scr}/work/{h}/cbmc.json'))
for e in d:
    if isinstance(e, dict) and 'result' in e:
        fails = [r for r in e['result'] if r['status'] != 'SUCCESS' and r.get('sourceLocation', {}).get('propertyClass') != 'cover']
        fails.sort(key=lambda r: len(r.get('trace', [])))
        for r in fails:
            print(len(r.get('trace', [])), r['description'][:90], '|', r['sourceLocation'].get('function', '')[-70:], r['sourceLocation'].get('line'))
        for r in fails:
            if sub and sub not in r['description']:
                continue
            print('=== TRACE', r['description'][:100])
            last = None
            for s in r.get('trace', []):
                sl = s.get('sourceLocation', {})
                fn = sl.get('function', '')
                key = (fn, sl.get('line'))
                if s.get('stepType') == 'assignment' and ('bugstalker' in sl.get('file', '') or 'verif' in sl.get('file', '') or sl.get('file', '').startswith('src/')):
                    v = s.get('value', {})
                    print(f"   {sl.get('file','')[-30:]}:{sl.get('line')} {s.get('lhs','')[-40:]} = {v.get('data', v.get('name', ''))}"[:200])
                elif s.get('stepType') in ('function-call', 'function-return') and ('verif' in sl.get('file', '') or sl.get('file', '').startswith('src/')):
                    print('  ', s['stepType'], s.get('function', {}).get('displayName', '')[-80:], '@', sl.get('file', '')[-30:], sl.get('line'))
            break
