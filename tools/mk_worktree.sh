#!/bin/bash
# usage: mk_worktree.sh <dir>   — scratch git worktree of /repo HEAD with prebuilt example binaries and a warm target dir
set -e
d=$1
git -C /repo worktree add --detach "$d" HEAD >/dev/null 2>&1
cp -r /repo/examples/target "$d/examples/target"
cp -r /repo/target "$d/target"
echo "$d"
