#!/bin/bash
# usage: seed_matrix.sh [seed-id ...]   — run the quick check of each seed's property against a COPY of /repo with the
# seeded patch applied (tools/try_seed.sh: own scratch, /repo untouched) and record the outcome in seeded/<id>/meta.json.
# The recorded on-/repo confirmation is tools/seed_on_repo.sh.
cd /verif
ids="$@"
[ -z "$ids" ] && ids=$(ls seeded)
for id in $ids; do
  [ -f seeded/$id/meta.json ] || continue
  prop=$(python3 -c "import json;print(json.load(open('seeded/$id/meta.json'))['property'])")
  if ! grep -q "\"property_id\": \"$prop\"" MANIFEST.json || ! python3 -c "
import json,sys
m=json.load(open('MANIFEST.json'));sys.exit(0 if any(c['property_id']=='$prop' for c in m['checks']) else 1)"; then
    python3 - "$id" "$prop" <<'PY'
import json,sys
p=f"seeded/{sys.argv[1]}/meta.json"; m=json.load(open(p))
m.setdefault("checks",{})[sys.argv[2]]={"outcome":"not-run","why":"property not claimed"}
json.dump(m,open(p,"w"),indent=1)
PY
    echo "$id $prop: property not claimed"; continue
  fi
  log=seeded/$id/check_$prop.log
  tools/try_seed.sh $id $prop --no-playback > $log 2>&1
  rc=$?
  python3 - "$id" "$prop" "$rc" <<'PY'
import json,sys,re
sid,prop,rc=sys.argv[1],sys.argv[2],int(sys.argv[3])
p=f"seeded/{sid}/meta.json"; m=json.load(open(p))
log=open(f"seeded/{sid}/check_{prop}.log").read()
viol=re.findall(r"violated \[(\w)\] (.*?) @ .* in (\S+)", log)
out={0:"missed",1:"detected",2:"inconclusive"}.get(rc,"error")
m.setdefault("checks",{})[prop]={"cmd":f"tools/try_seed.sh {sid} {prop} --no-playback","exit":rc,"outcome":out,
  "violated":[{"class":c,"assertion":d[:160],"harness_fn":f.split('::')[-1]} for c,d,f in viol][:6],
  "inconclusive":re.findall(r"INCONCLUSIVE property=\S+ harness=(\S+): (.{0,120})", log)[:4]}
json.dump(m,open(p,"w"),indent=1)
print(sid,prop,out,[v[1][:60] for v in viol][:2])
PY
done
