#!/usr/bin/env python3
"""Regenerate the machine-written tables of DESIGN.md section 11 (between the BEGIN/END markers)."""
import json, os, re, sys
sys.path.insert(0, "/verif/bsverif")
import core
V = "/verif"

def harness_table():
    rows = []
    for m in core.load_modules():
        for h in m.harnesses:
            rows.append((h.property, h.name, h.tier, h.obligation, m.inject.replace("src/", ""), "T7" if m.t7 else ""))
    rows.sort()
    out = ["| property | harness | tier | obligation | injected into | |", "|---|---|---|---|---|---|"]
    for r in rows:
        out.append("| %s | `%s` | %s | %s | `%s` | %s |" % r)
    return "\n".join(out)

def seed_table():
    out = ["| seeded change | property | needs, to manifest | confirmed (suite ok / demo fails with / passes without) | quick check on a patched copy | same, by the recorded procedure on /repo (replay) | failing obligation |",
           "|---|---|---|---|---|---|---|"]
    d = os.path.join(V, "seeded")
    for sid in sorted(os.listdir(d)):
        mp = os.path.join(d, sid, "meta.json")
        if not os.path.exists(mp):
            continue
        m = json.load(open(mp))
        c = m.get("confirmed", {})
        conf = "%s / %s / %s" % tuple("yes" if c.get(k) else ("no" if c.get(k) is False else "?") for k in
                                      ("suite_with_patch_all_stable_pass", "demo_with_patch_fails", "demo_without_patch_passes"))
        chk = m.get("checks", {}).get(m["property"], {})
        viol = "; ".join(sorted({v["harness_fn"] + ": " + v["assertion"][5:75] for v in chk.get("violated", [])}))[:260]
        if chk.get("outcome") == "inconclusive":
            viol = "; ".join("%s: %s" % (a, b[:80]) for a, b in chk.get("inconclusive", []))[:260]
        onr = m.get("on_repo", {})
        rp = "; ".join(x.replace("replay: ", "")[:60] for x in onr.get("replay_lines", [])[:1])
        onrs = ("%s (%ss%s)" % (onr.get("outcome"), onr.get("seconds"), (", " + rp) if rp else "")) if onr else "-"
        out.append("| `%s` | %s | %s | %s | **%s** | %s | %s |" % (sid, m["property"], m.get("needs_to_manifest", "")[:230], conf,
                                                              chk.get("outcome", "not run"), onrs, viol or chk.get("why", "") or m.get("note", "")))
    return "\n".join(out)

def main():
    p = os.path.join(V, "DESIGN.md")
    s = open(p).read()
    for name, fn in (("HARNESS-TABLE", harness_table), ("SEED-TABLE", seed_table)):
        b, e = "<!-- BEGIN %s -->" % name, "<!-- END %s -->" % name
        if b in s and e in s:
            s = s[:s.index(b) + len(b)] + "\n" + fn() + "\n" + s[s.index(e):]
    open(p, "w").write(s)

if __name__ == "__main__":
    main()
