#!/bin/bash
# usage: try_seed.sh <seed-id> <property> [extra run.py args]
# Development helper: runs a property's check against a COPY of /repo with the seeded patch applied
# (own scratch, /repo untouched).  The recorded confirmation uses tools/seed_on_repo.sh instead.
id=$1; prop=$2; shift 2
src=/var/tmp/seedrepo/$id.$$
mkdir -p /var/tmp/seedrepo
rsync -a --delete --exclude /target --exclude /.git --exclude /website --exclude /doc --exclude /extension /repo/ $src/
( cd $src && git init -q 2>/dev/null; patch -p1 -s < /verif/seeded/$id/patch.diff ) || { echo "patch failed"; exit 2; }
S=${SEED_SCRATCH:-/var/tmp/bsverif_seed}
mkdir -p $S
[ -d $S/kani-target ] || cp -r /var/tmp/bsverif/kani-target $S/kani-target
BSVERIF_REPO=$src BSVERIF_SCRATCH=$S BSVERIF_REPLAYS=$S/replays python3 /verif/bsverif/run.py $prop --no-evidence "$@"
rc=$?
rm -rf $src
echo "try_seed $id $prop rc=$rc"
exit $rc
