#!/bin/bash
# usage: seed_on_repo.sh <seed-id> [tier]   — the recorded procedure: apply the seeded patch to /repo itself
# (git -C /repo apply), run the registered command of the seed's property, undo straight afterwards
# (git -C /repo checkout -- .), and record the outcome in seeded/<id>/meta.json ("on_repo").
# Never run while another check is running against /repo.
id=$1; tier=${2:-quick}
cd /verif
prop=$(python3 -c "import json;print(json.load(open('seeded/$id/meta.json'))['property'])")
cmd=$(python3 -c "
import json
m=json.load(open('MANIFEST.json'))
c=[c for c in m['checks'] if c['property_id']=='$prop']
print(c[0]['${tier}_cmd'] if c else '')")
[ -z "$cmd" ] && { echo "$prop is not claimed"; exit 2; }
[ -n "$(git -C /repo status --porcelain --untracked-files=no)" ] && { echo "/repo has uncommitted changes"; exit 2; }
git -C /repo apply /verif/seeded/$id/patch.diff || exit 2
t0=$(date +%s)
BSVERIF_REPLAYS=/verif/seeded/$id/replays $cmd --no-evidence > /verif/seeded/$id/on_repo_$prop.log 2>&1
rc=$?
t1=$(date +%s)
git -C /repo checkout -- .
python3 - "$id" "$prop" "$rc" "$cmd" "$((t1-t0))" <<'PY'
import json,sys,re
sid,prop,rc,cmd,secs=sys.argv[1],sys.argv[2],int(sys.argv[3]),sys.argv[4],int(sys.argv[5])
p=f"/verif/seeded/{sid}/meta.json"; m=json.load(open(p))
log=open(f"/verif/seeded/{sid}/on_repo_{prop}.log").read()
m["on_repo"]={"procedure":"git -C /repo apply patch.diff; <registered quick command> --no-evidence; git -C /repo checkout -- .",
  "cmd":cmd+" --no-evidence","exit":rc,"outcome":{0:"missed",1:"detected",2:"inconclusive"}.get(rc,"error"),"seconds":secs,
  "violation_lines":re.findall(r"^VIOLATION .*$",log,re.M)[:4],
  "replay_lines":[l.strip() for l in re.findall(r"^\s*replay: .*$",log,re.M)][:4]}
json.dump(m,open(p,"w"),indent=1)
print(sid,prop,m["on_repo"]["outcome"],secs,"s")
PY
exit $rc
