#!/bin/bash
# usage: seed_on_repo.sh <seed-id> <property> [tier]   — the recorded procedure: apply to /repo, run the registered
# command, undo straight afterwards.  Never run while another check is running.
id=$1; prop=$2; tier=${3:-quick}
cd /verif
git -C /repo apply /verif/seeded/$id/patch.diff || exit 2
python3 bsverif/run.py $prop --tier $tier --no-evidence > /verif/seeded/$id/check_$prop.log 2>&1
rc=$?
git -C /repo checkout -- .
tail -5 /verif/seeded/$id/check_$prop.log
echo "seed_on_repo $id $prop tier=$tier rc=$rc"
exit $rc
