#!/bin/bash
# usage: reconfirm_suite.sh <seed-id>  — fresh scratch worktree, apply the seed's patch, run the pinned suite
# (with the 2-thread retry of baseline.sh), record the result in the seed's confirm.log / meta.json, remove the worktree
id=$1
wt=/tmp/wt_re_$id
/verif/tools/mk_worktree.sh $wt >/dev/null || exit 2
cd $wt && git apply /verif/seeded/$id/patch.diff || { echo "patch does not apply"; exit 2; }
CARGO_NET_OFFLINE=true cargo build --offline > /dev/null 2>&1
/verif/tools/baseline.sh $wt > /verif/seeded/$id/suite_reconfirm.log 2>&1; rc=$?
cd /verif
git -C /repo worktree remove --force $wt; git -C /repo worktree prune
python3 - "$id" "$rc" <<'PY'
import json,sys
p=f"/verif/seeded/{sys.argv[1]}/meta.json"; m=json.load(open(p))
m["confirmed"]["suite_with_patch_all_stable_pass"]= (sys.argv[2]=="0")
m["confirmed"]["suite_note"]="re-run in a fresh worktree with tools/reconfirm_suite.sh (first run lost dap_integration tests to load: 'Connection refused'); see suite_reconfirm.log"
json.dump(m,open(p,"w"),indent=1)
PY
echo "reconfirm $id rc=$rc"; tail -3 /verif/seeded/$id/suite_reconfirm.log
