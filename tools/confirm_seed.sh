#!/bin/bash
# usage: confirm_seed.sh <worktree> <seed-id> <property> '<demo test command run inside worktree>'
# confirms: patch applies+builds, 98 stable tests pass with patch, demo fails with patch, demo passes without.
wt=$1; id=$2; prop=$3; demo=$4
out=/verif/seeded/$id; mkdir -p $out
cp $wt/DELIVERABLE/patch.diff $out/patch.diff
cp $wt/DELIVERABLE/demo.diff $out/demo.diff 2>/dev/null
cp $wt/DELIVERABLE/README.md $out/agent_README.md 2>/dev/null
cd $wt || exit 2
git checkout -q -- . ; git clean -fdq -e DELIVERABLE -e target -e examples/target
log=$out/confirm.log; : > $log
git apply $out/patch.diff || { echo "patch does not apply" | tee -a $log; exit 1; }
echo "== suite with patch" >> $log
/verif/tools/baseline.sh $wt >> $log 2>&1; suite_rc=$?
git apply $out/demo.diff || { echo "demo does not apply" | tee -a $log; }
echo "== demo with patch (expect FAIL)" >> $log
( eval "$demo" ) > $out/demo_with_patch.log 2>&1; with_rc=$?
tail -15 $out/demo_with_patch.log >> $log
git apply -R $out/patch.diff
echo "== demo without patch (expect PASS)" >> $log
( eval "$demo" ) > $out/demo_without_patch.log 2>&1; without_rc=$?
tail -8 $out/demo_without_patch.log >> $log
git checkout -q -- . ; git clean -fdq -e DELIVERABLE -e target -e examples/target
echo "RESULT id=$id property=$prop suite_rc=$suite_rc demo_with_patch_rc=$with_rc demo_without_patch_rc=$without_rc" | tee -a $log
