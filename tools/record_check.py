#!/usr/bin/env python3
"""record_check.py <seed-id> <property> <rc> — record the outcome of a tools/try_seed.sh run (log in seeded/<id>/check_<prop>.log)
in seeded/<id>/meta.json; same record as tools/seed_matrix.sh writes."""
import json, sys, re
sid, prop, rc = sys.argv[1], sys.argv[2], int(sys.argv[3])
p = f"/verif/seeded/{sid}/meta.json"; m = json.load(open(p))
log = open(f"/verif/seeded/{sid}/check_{prop}.log").read()
viol = re.findall(r"violated \[(\w)\] (.*?) @ .* in (\S+)", log)
out = {0: "missed", 1: "detected", 2: "inconclusive"}.get(rc, "error")
m.setdefault("checks", {})[prop] = {"cmd": f"tools/try_seed.sh {sid} {prop} --no-playback", "exit": rc, "outcome": out,
    "violated": [{"class": c, "assertion": d[:160], "harness_fn": f.split('::')[-1]} for c, d, f in viol][:6],
    "inconclusive": re.findall(r"INCONCLUSIVE property=\S+ harness=(\S+): (.{0,120})", log)[:4]}
json.dump(m, open(p, "w"), indent=1)
print(sid, prop, out, [v[1][:60] for v in viol][:2])
