#!/usr/bin/env python3
"""print the prompt for a breakage sub-agent: agent_prompt.py <Cxx> <worktree> [variant hint number]"""
import json, sys
pid, wt = sys.argv[1], sys.argv[2]
hint = sys.argv[3] if len(sys.argv) > 3 else ""
p = [json.loads(l) for l in open('/verif/properties.jsonl') if json.loads(l)['id'] == pid][0]
print(f"""You are helping test a verification effort for BugStalker (godzie44/BugStalker), a ptrace-based Linux x86-64 debugger for Rust programs, written in Rust.

You have your own scratch git worktree of the repository at {wt} (already created, with prebuilt example binaries under examples/target and a warm cargo target dir under {wt}/target). Work ONLY inside {wt}. Never touch /repo or /verif, and do not read anything under /verif.

The property under study:

  Title: {p['title']}
  Statement: {p['statement']}
  Quantified over: {p['quantifier']['text']}
  Relevant source files (starting points): {', '.join(p['anchors'].get('files', []))}

Your task: produce ONE realistic change to the BugStalker source (the kind of bug a maintainer could plausibly introduce in a refactor, optimisation or feature tweak — an off-by-one, a wrong constant/bit/field, a dropped or reordered step, a wrong comparison, a swapped pair, a missed restore on one path, etc.) that BREAKS the property above while:
  1. the crate still compiles (cargo build --offline), and
  2. the existing test suite still passes exactly as before. Run it with:
       cd {wt} && CARGO_NET_OFFLINE=true cargo nextest run --workspace --no-fail-fast --test-threads 8 --offline 2>&1 | tail -40
     NOTE: on the unchanged tree 98 tests pass and 82 fail (the failing ones need debug info / ptrace features missing in this sandbox); what matters is that the SAME 98 still pass with your change. The list of the 98 is the "stable_pass" array in /root/.vp/BASELINE.json (you may read that file).
  3. The breakage must need something specific to manifest — a particular input value, alignment, slot/index, multi-step sequence of operations, an unusual state, a fault on one path, or two cooperating sites that each look fine alone — NOT something ordinary use would expose at once.{(' Variation hint: ' + hint) if hint else ''}
  Prefer a change in the core logic/arithmetic/state handling of the files listed above (not in UI text, logging or docs). Keep it small (a few lines).

Also produce a DEMONSTRATION: a Rust unit test (placed in the crate, e.g. a #[cfg(test)] module in the changed file or a new file under src/ wired in with #[cfg(test)] mod) or a small program that FAILS with your change and PASSES without it. The demonstration may construct internal structs directly and may mock/skip the ptrace layer if a live process is not needed; if it needs a live debuggee use the example binaries the existing tests use. Verify both directions yourself (passes on the unchanged tree, fails with the change).

Deliverables, written into {wt}/DELIVERABLE/ :
  - patch.diff : `git diff` of ONLY the breaking source change (not the demonstration), applicable with `git apply` at the repository root
  - demo.diff  : `git diff` of ONLY the demonstration (test) files, applicable on top of the unchanged tree
  - README.md  : which part of the property breaks, what exactly is needed for it to manifest, the exact commands you ran and their results (suite with change; demo without change = pass; demo with change = fail)
Leave the worktree with the unchanged source (both diffs reverted) when you finish. Do not commit anything. Time budget: about 40 minutes; builds are slow (several minutes), so plan few iterations. Use `cargo test --offline --lib <test_name>` for the demonstration to avoid running everything.
Report back a 5-line summary.""")
