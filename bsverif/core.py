#!/usr/bin/env python3
"""bsverif core: snapshot /repo, inject Kani harness modules, build once per tree,
run one `cargo kani` process per harness, classify every CBMC check, write evidence.

Stdlib only.  See /verif/DESIGN.md sections 2, 4, 5.
"""
import fcntl
import hashlib
import json
import os
import re
import resource
import shutil
import subprocess
import sys
import time
from concurrent.futures import ThreadPoolExecutor

VERIF = os.path.dirname(os.path.dirname(os.path.abspath(__file__)))
REPO = os.environ.get("BSVERIF_REPO", "/repo")
SCRATCH = os.environ.get("BSVERIF_SCRATCH", "/var/tmp/bsverif")
HARNESS_DIR = os.path.join(VERIF, "harness")
EVIDENCE_DIR = os.path.join(VERIF, "evidence")
REPLAY_DIR = os.environ.get("BSVERIF_REPLAYS", os.path.join(VERIF, "replays"))
KNOWN_FILE = os.path.join(VERIF, "known_findings.txt")
SCRATCH_REPO = os.path.join(SCRATCH, "repo")
KANI_TARGET = os.path.join(SCRATCH, "kani-target")
LOG_DIR = os.path.join(SCRATCH, "logs")
EXCLUDES = ["target", ".git", "website", "doc", "extension"]

ENV = dict(os.environ)
ENV["CARGO_NET_OFFLINE"] = "true"
ENV.pop("RUSTUP_TOOLCHAIN", None)


def log(*a):
    print("[bsverif]", *a, file=sys.stderr, flush=True)


# --------------------------------------------------------------------------
# harness metadata
# --------------------------------------------------------------------------

class Harness:
    def __init__(self, d, module):
        self.name = d["harness"]
        self.property = d["property"]
        self.obligation = d.get("obligation", "")
        self.tier = d.get("tier", "quick")
        self.encodes = d.get("encodes", "")
        self.symbolic = d.get("symbolic", "")
        self.bounds = d.get("bounds", "")
        self.oracle = d.get("oracle", "")
        self.stubs = d.get("stubs", "")
        self.assumes = d.get("assumes", "")
        self.outside = d.get("outside", "")
        self.unwindset = d.get("unwindset", "")
        self.timeout = int(d.get("timeout", "600"))
        self.mem_gb = int(d.get("mem_gb", "12"))
        self.tolerate = d.get("tolerate_list", [])
        self.module = module  # HarnessModule
        self.order = int(d.get("order", "50"))

    @property
    def path(self):
        return self.module.rust_path + "::" + self.name


class HarnessModule:
    def __init__(self, fname):
        self.file = os.path.join(HARNESS_DIR, fname)
        self.stem = os.path.splitext(fname)[0]
        self.inject = None
        self.t7 = []
        self.t7_keep = []
        self.t7_path = []
        self.requires = []   # stems of helper modules (no harnesses of their own) to inject as well
        self.harnesses = []
        self._parse()

    @property
    def modname(self):
        return "bsv_" + self.stem

    @property
    def rust_path(self):
        p = self.inject
        assert p.startswith("src/") and p.endswith(".rs")
        p = p[4:-3]
        parts = p.split("/")
        if parts[-1] in ("mod", "lib"):
            parts = parts[:-1]
        kw = {"type", "async", "match", "mod", "use", "fn", "impl", "loop", "move", "ref", "self", "struct", "trait"}
        parts = [("r#" + x) if x in kw else x for x in parts]
        return "::".join(parts + [self.modname])

    def _parse(self):
        cur = None
        with open(self.file) as f:
            for line in f:
                s = line.strip()
                if s.startswith("//! inject:"):
                    self.inject = s.split(":", 1)[1].strip()
                elif s.startswith("//! t7:"):
                    self.t7 += [x.strip() for x in s.split(":", 1)[1].split(",") if x.strip()]
                elif s.startswith("//! t7-path:"):
                    # files that name std::collections::HashMap / HashSet by full path (no `use` line to redirect)
                    self.t7_path += [x.strip() for x in s.split(":", 1)[1].split(",") if x.strip()]
                elif s.startswith("//! t7-keep-std:"):
                    # "<file>: <regex>": lines of <file> matching <regex> keep std's HashMap/HashSet under T7
                    f_, _, rx = s.split(":", 1)[1].strip().partition(":")
                    self.t7_keep.append((f_.strip(), rx.strip()))
                elif s.startswith("//! requires:"):
                    self.requires += [x.strip() for x in s.split(":", 1)[1].split(",") if x.strip()]
                elif s.startswith("//@"):
                    body = s[3:].strip()
                    if ":" not in body:
                        continue
                    k, v = body.split(":", 1)
                    k, v = k.strip(), v.strip()
                    if k == "harness":
                        if cur:
                            self.harnesses.append(Harness(cur, self))
                        cur = {"harness": v, "tolerate_list": []}
                    elif cur is not None:
                        if k == "tolerate":
                            cur["tolerate_list"].append(v)
                        elif k in cur and k != "harness":
                            cur[k] += " " + v
                        else:
                            cur[k] = v
        if cur:
            self.harnesses.append(Harness(cur, self))
        if not self.inject:
            raise SystemExit(f"{self.file}: missing //! inject: header")


def load_modules():
    mods = []
    for fn in sorted(os.listdir(HARNESS_DIR)):
        if fn.endswith(".rs"):
            mods.append(HarnessModule(fn))
    return mods


# --------------------------------------------------------------------------
# snapshot + inject
# --------------------------------------------------------------------------

T7_USE_RE = re.compile(r"^use std::collections::(\{[^}]*\}|\w+);\s*$", re.M)


def _write_if_changed(path, content):
    try:
        with open(path) as f:
            if f.read() == content:
                return False
    except FileNotFoundError:
        pass
    with open(path, "w") as f:
        f.write(content)
    return True


def snapshot_and_inject(mods):
    """rsync /repo's working tree into the scratch copy and append the harness modules.

    Returns (tree_hash, problems).  Files that receive an injection are excluded from the
    rsync and rewritten only when their content changes, so that an unchanged tree does not
    trigger a rebuild.
    """
    os.makedirs(SCRATCH_REPO, exist_ok=True)
    injected = {}
    for m in mods:
        injected.setdefault(m.inject, []).append(m)
    t7_files = sorted({f for m in mods for f in m.t7})
    t7_path_files = sorted({f for m in mods for f in m.t7_path})
    special = set(injected) | set(t7_files) | set(t7_path_files) | {"src/lib.rs"}
    cmd = ["rsync", "-a", "--delete"]
    for e in EXCLUDES:
        cmd += ["--exclude", "/" + e]
    for s in sorted(special):
        cmd += ["--exclude", "/" + s]
    cmd += [REPO + "/", SCRATCH_REPO + "/"]
    subprocess.run(cmd, check=True)
    problems = []
    for rel in sorted(special):
        src = os.path.join(REPO, rel)
        if not os.path.exists(src):
            problems.append(f"injection target {rel} does not exist in this tree")
            continue
        with open(src) as f:
            text = f.read()
        if rel in t7_files:
            mm = T7_USE_RE.search(text)
            if not mm:
                problems.append(f"T7: no `use std::collections::...;` line in {rel}")
            else:
                names = mm.group(1)
                items = [x.strip() for x in names.strip("{}").split(",") if x.strip()]
                modelled = [x for x in items if x in ("HashMap", "HashSet")]
                rest = [x for x in items if x not in ("HashMap", "HashSet")]
                rep = f"#[cfg(not(kani))]\nuse std::collections::{names};\n"
                if modelled:
                    rep += "#[cfg(kani)]\nuse crate::bsv_vecmap::{%s};\n" % ", ".join(modelled)
                if rest:
                    rep += "#[cfg(kani)]\nuse std::collections::{%s};\n" % ", ".join(rest)
                text = text[:mm.start()] + rep + text[mm.end():]
                for m in mods:
                    for f_, rx in m.t7_keep:
                        if f_ == rel:
                            lines = text.split("\n")
                            hit = False
                            for i, ln in enumerate(lines):
                                if re.search(rx, ln):
                                    hit = True
                                    lines[i] = re.sub(r"(?<![\w:])(HashMap|HashSet)<", r"std::collections::\1<", ln)
                            if not hit:
                                problems.append(f"T7: no line matching {rx!r} in {rel}")
                            text = "\n".join(lines)
        if rel in t7_path_files:
            new_text = re.sub(r"std::collections::(HashMap|HashSet)<", r"crate::bsv_vecmap::\1<", text)
            if new_text == text:
                problems.append(f"T7: no std::collections::HashMap< / HashSet< path in {rel}")
            text = new_text
        if not text.endswith("\n"):
            text += "\n"
        if rel == "src/lib.rs":
            text += ('#[cfg(kani)] #[path = "%s/common/vecmap.rs"] pub mod bsv_vecmap;\n'
                     % HARNESS_DIR)
        for m in injected.get(rel, []):
            text += '#[cfg(kani)] #[path = "%s"] pub(crate) mod %s;\n' % (m.file, m.modname)
        os.makedirs(os.path.dirname(os.path.join(SCRATCH_REPO, rel)), exist_ok=True)
        _write_if_changed(os.path.join(SCRATCH_REPO, rel), text)
    return tree_hash(), problems


def tree_hash():
    h = hashlib.sha256()
    for base in (os.path.join(SCRATCH_REPO, "src"), HARNESS_DIR):
        for root, dirs, files in os.walk(base):
            dirs.sort()
            for fn in sorted(files):
                p = os.path.join(root, fn)
                h.update(p.encode())
                with open(p, "rb") as f:
                    h.update(f.read())
    for fn in ("Cargo.toml", "Cargo.lock", "build.rs"):
        p = os.path.join(SCRATCH_REPO, fn)
        if os.path.exists(p):
            with open(p, "rb") as f:
                h.update(f.read())
    return h.hexdigest()[:16]


class Lock:
    def __init__(self, name):
        os.makedirs(SCRATCH, exist_ok=True)
        self.path = os.path.join(SCRATCH, name + ".lock")

    def __enter__(self):
        self.f = open(self.path, "w")
        fcntl.flock(self.f, fcntl.LOCK_EX)
        return self

    def __exit__(self, *a):
        fcntl.flock(self.f, fcntl.LOCK_UN)
        self.f.close()


KANI_HOME = os.environ.get("KANI_HOME", os.path.expanduser("~/.kani/kani-0.68.0"))
KBIN = os.path.join(KANI_HOME, "bin")
KANI_LIB_C = os.path.join(KANI_HOME, "library", "kani", "kani_lib.c")
WORK = os.path.join(SCRATCH, "work")
CBMC_FLAGS = ["--no-malloc-may-fail", "--no-undefined-shift-check", "--no-signed-overflow-check",
              "--nan-check", "--no-self-loops-to-assumptions", "--no-pointer-primitive-check",
              "--object-bits", "16", "--sat-solver", "cadical", "--slice-formula"]


def build(th, harnesses):
    """One `cargo kani --only-codegen` for the selected harnesses (exact names).

    The stamp is (tree hash, harness set); kani-driver's own pipeline is not used for solving
    (it recompiles the crate for every distinct --harness filter); the goto binaries written
    by kani-compiler are picked up from its metadata file instead.
    """
    names = sorted(h.path for h in harnesses)
    key = hashlib.sha256((th + "|" + ",".join(names)).encode()).hexdigest()[:16]
    stamp = os.path.join(SCRATCH, f"built-{key}.json")
    blog = os.path.join(SCRATCH, f"build-{key}.log")
    if os.path.exists(stamp):
        try:
            with open(stamp) as f:
                st = json.load(f)
            # a later build of another tree overwrites the goto binaries under the same names:
            # the stamp is valid only while every binary is byte-for-byte the one this build wrote
            if all(_sig(x["goto_file"]) == x.get("sig") for x in st["harnesses"].values()):
                return True, 0.0, blog, st["harnesses"]
        except (OSError, ValueError, KeyError):
            pass
    t0 = time.time()
    cmd = ["cargo", "kani", "-Z", "stubbing", "-Z", "unstable-options", "--only-codegen",
           "--no-assertion-reach-checks", "--target-dir", KANI_TARGET, "--exact"]
    for n in names:
        cmd += ["--harness", n]
    with open(blog, "w") as lf:
        rc = subprocess.run(cmd, cwd=SCRATCH_REPO, env=ENV, stdout=lf, stderr=subprocess.STDOUT).returncode
    dt = time.time() - t0
    if rc != 0:
        return False, dt, blog, {}
    meta = find_metadata(set(names))
    if meta is None:
        return False, dt, blog, {}
    for v in meta.values():
        v["sig"] = _sig(v["goto_file"])
    with open(stamp, "w") as f:
        json.dump({"tree": th, "harnesses": meta}, f)
    return True, dt, blog, meta


def _sig(path):
    try:
        st = os.stat(path)
        return [st.st_size, st.st_mtime_ns]
    except OSError:
        return None


def find_metadata(names):
    base = os.path.join(KANI_TARGET, "kani", "x86_64-unknown-linux-gnu", "debug", "build", "bugstalker")
    best = None
    if not os.path.isdir(base):
        return None
    for d in os.listdir(base):
        out = os.path.join(base, d, "out")
        if not os.path.isdir(out):
            continue
        for fn in os.listdir(out):
            if fn.endswith(".kani-metadata.json") and fn.startswith("bugstalker-"):
                p = os.path.join(out, fn)
                try:
                    with open(p) as f:
                        md = json.load(f)
                except (OSError, ValueError):
                    continue
                hs = {h["pretty_name"]: h for h in md.get("proof_harnesses", [])}
                if set(hs) == names:
                    mt = os.path.getmtime(p)
                    if best is None or mt > best[0]:
                        best = (mt, hs)
    if best is None:
        return None
    return {k: {"mangled_name": v["mangled_name"], "goto_file": v["goto_file"],
                "unwind": v["attributes"].get("unwind_value"),
                "stubs": [s["original"].replace(" ", "") + " -> " + s["replacement"].replace(" ", "")
                          for s in v["attributes"].get("stubs", [])]}
            for k, v in best[1].items()}


def prepare(mods, harnesses):
    with Lock("build"):
        th, problems = snapshot_and_inject(mods)
        if problems:
            return th, False, problems, 0.0, {}
        ok, dt, blog, meta = build(th, harnesses)
        if not ok:
            tail = ""
            try:
                with open(blog) as f:
                    # error blocks only (warnings also carry "-->" lines and must not be mistaken for failures)
                    out, keep = [], 0
                    for l in f.read().splitlines():
                        if l.startswith("error"):
                            out.append(l)
                            keep = 2
                        elif keep and "-->" in l:
                            out.append(l.strip())
                            keep -= 1
                        elif l.startswith("warning"):
                            keep = 0
                    tail = "; ".join(out[:12])
            except OSError:
                pass
            return th, False, ["harness build failed against this tree: " + tail], dt, {}
        return th, True, [], dt, meta


# --------------------------------------------------------------------------
# running one harness: goto-cc / goto-instrument / cbmc, as kani-driver 0.68 does
# --------------------------------------------------------------------------

def classify(pclass, prop, desc):
    d = desc
    if pclass == "cover":
        return "cover"
    if "BSV:" in d:
        return "P"
    if pclass == "unwind" or "unwinding assertion" in d or "recursion unwinding" in d:
        return "B"
    if pclass in ("unsupported_construct", "sanity_check", "reachability_check"):
        return "B"
    if "not currently supported by Kani" in d:
        return "B"
    if pclass == "arithmetic_overflow" or ("attempt to" in d and "overflow" in d) or pclass == "overflow":
        return "O"
    if pclass in ("pointer dereference", "pointer", "pointer arithmetic", "array bounds", "safety_check",
                  "precondition", "precondition_instance", "assume", "exact_div", "bit count",
                  "pointer primitives", "memory-leak", "deallocate", "free", "undefined-shift", "NaN",
                  "division-by-zero", "float-division-by-zero", "enum-range-check", "alignment"):
        return "M"
    return "C"


def _limits(mem_gb):
    def f():
        b = mem_gb * 1024 ** 3
        resource.setrlimit(resource.RLIMIT_AS, (b, b))
        os.setsid()
    return f


def _run(cmd, out_path, timeout, mem_gb, append=False):
    t0 = time.time()
    with open(out_path, "ab" if append else "wb") as lf:
        p = subprocess.Popen(cmd, stdout=lf, stderr=subprocess.STDOUT, preexec_fn=_limits(mem_gb))
        try:
            rc = p.wait(timeout=max(1, timeout))
            to = False
        except subprocess.TimeoutExpired:
            to = True
            try:
                os.killpg(p.pid, 9)
            except ProcessLookupError:
                pass
            p.wait()
            rc = -9
    return rc, to, time.time() - t0


def resolve_unwindset(h, gb, wdir, deadline):
    """//@ unwindset: <regex over the loop's function name or file:line>=<n>; ..."""
    pats = []
    for item in h.unwindset.split(";"):
        item = item.strip()
        if not item:
            continue
        pat, n = item.rsplit("=", 1)
        pat = pat.strip()
        opt = pat.startswith("?")          # "?pattern=n": a bound for a loop this harness may not contain
        pats.append((pat.lstrip("?").strip(), int(n), opt))
    lj = os.path.join(wdir, "loops.json")
    rc, to, _ = _run([os.path.join(KBIN, "cbmc"), "--show-loops", "--json-ui", gb], lj,
                     deadline - time.time(), h.mem_gb)
    if rc != 0 or to:
        return None, ["cbmc --show-loops failed"], []
    with open(lj) as f:
        data = json.load(f)
    loops = []
    for e in data:
        if isinstance(e, dict) and "loops" in e:
            loops = e["loops"]
    sets, used, table = [], set(), []
    for lp in loops:
        sl = lp.get("sourceLocation", {})
        key = "%s @ %s:%s" % (sl.get("function", ""), sl.get("file", ""), sl.get("line", ""))
        for i, (pat, n, _opt) in enumerate(pats):
            if re.search(pat, key):
                sets.append("%s:%d" % (lp["name"], n))
                used.add(i)
                table.append({"loop": key[:160], "bound": n})
                break
    problems = ["unwindset pattern matches no loop: " + pats[i][0] for i in range(len(pats))
                if i not in used and not pats[i][2]]
    return sets, problems, table


def run_harness(h, meta, trace=False, tag="", loops_only=False, only_property=None):
    wdir = os.path.join(WORK, h.name + tag)
    shutil.rmtree(wdir, ignore_errors=True)
    os.makedirs(wdir)
    lg = os.path.join(wdir, "pipeline.log")
    gb = os.path.join(wdir, "h.out")
    t0 = time.time()
    deadline = t0 + h.timeout
    res = {
        "harness": h.name, "path": h.path, "property": h.property, "obligation": h.obligation,
        "timed_out": False, "wall_s": 0.0, "log": lg, "checks": 0, "by_class": {}, "failures": [],
        "covers": [], "solver_s": None, "cbmc_s": None, "prep_s": None, "verdict": None, "reasons": [],
        "stubs_applied": meta.get("stubs", []), "unwind": meta.get("unwind"), "loop_bounds": [],
        "vccs": None, "program_steps": None,
    }

    def fail(reason, to=False):
        res["verdict"] = "INCONCLUSIVE"
        res["timed_out"] = to
        res["reasons"].append(reason)
        res["wall_s"] = round(time.time() - t0, 1)
        return res

    gi = os.path.join(KBIN, "goto-instrument")
    gcc = os.path.join(KBIN, "goto-cc")
    steps = [
        [gcc, meta["goto_file"], KANI_LIB_C, "-o", gb],
        [gcc, gb, "--function", meta["mangled_name"], "-o", gb],
        [gi, "--add-library", "--no-malloc-may-fail", gb, gb],
        [gi, "--generate-function-body-options", "assert-false-assume-false",
         "--generate-function-body", ".*", "--drop-unused-functions", gb, gb],
        [gi, "--ensure-one-backedge-per-target", gb, gb],
    ]
    for st in steps:
        rc, to, _ = _run(st, lg, deadline - time.time(), h.mem_gb, append=True)
        if to:
            return fail(f"timeout after {h.timeout}s in {os.path.basename(st[0])}", True)
        if rc != 0:
            return fail(f"{os.path.basename(st[0])} failed rc={rc}; see {lg}")
    res["prep_s"] = round(time.time() - t0, 1)
    if loops_only:
        lj = os.path.join(wdir, "loops.json")
        _run([os.path.join(KBIN, "cbmc"), "--show-loops", "--json-ui", gb], lj, 600, h.mem_gb)
        with open(lj) as f:
            for e in json.load(f):
                if isinstance(e, dict) and "loops" in e:
                    for lp in e["loops"]:
                        sl = lp.get("sourceLocation", {})
                        print("LOOP %s | %s @ %s:%s" % (lp["name"][-60:], sl.get("function", "")[-110:], sl.get("file", "")[-50:], sl.get("line", "")))
        res["verdict"] = "INCONCLUSIVE"
        res["reasons"].append("loops only")
        return res
    flags = list(CBMC_FLAGS)
    if only_property:
        # replay run: one property, formula not sliced, so that the trace lists every kani::any() value in program order
        flags = [f for f in flags if f != "--slice-formula"] + ["--property", only_property, "--trace"]
    cmd = [os.path.join(KBIN, "cbmc")] + flags
    if meta.get("unwind") is not None:
        cmd += ["--unwind", str(meta["unwind"])]
    if h.unwindset:
        sets, problems, table = resolve_unwindset(h, gb, wdir, deadline)
        if sets is None or problems:
            return fail("; ".join(problems))
        res["loop_bounds"] = table
        if sets:
            cmd += ["--unwindset", ",".join(sets)]
    if trace:
        cmd += ["--trace"]
    cmd += [gb, "--verbosity", "8", "--json-ui"]
    oj = os.path.join(wdir, "cbmc.json")
    t1 = time.time()
    rc, to, dt = _run(cmd, oj, deadline - time.time(), h.mem_gb)
    res["cbmc_s"] = round(dt, 1)
    if to:
        return fail(f"timeout after {h.timeout}s in cbmc", True)
    try:
        with open(oj) as f:
            data = json.load(f)
    except (OSError, ValueError) as e:
        return fail(f"cbmc output unreadable (rc={rc}): out of memory or crash ({e.__class__.__name__})")
    parse_cbmc(h, data, res, wdir)
    res["wall_s"] = round(time.time() - t0, 1)
    shutil.rmtree(os.path.join(wdir, "h.out"), ignore_errors=True)
    try:
        os.remove(gb)
    except OSError:
        pass
    return res


KANI_ID_RE = re.compile(r"^\[KANI_CHECK_ID_[^\]]*\]\s*")


def parse_cbmc(h, data, res, wdir):
    results = None
    status = None
    solver = 0.0
    errors = []
    for e in data:
        if not isinstance(e, dict):
            continue
        if "result" in e:
            results = e["result"]
        if "cProverStatus" in e:
            status = e["cProverStatus"]
        mt = e.get("messageText")
        if mt:
            m = re.match(r"Runtime decision procedure: ([\d.]+)s", mt)
            if m:
                solver += float(m.group(1))
            m = re.match(r"Generated (\d+) VCC\(s\), (\d+) remaining", mt)
            if m:
                res["vccs"] = int(m.group(2))
            m = re.match(r"size of program expression: (\d+) steps", mt)
            if m:
                res["program_steps"] = int(m.group(1))
            if e.get("messageType") == "ERROR":
                errors.append(mt[:300])
    res["solver_s"] = round(solver, 2)
    if results is None:
        res["verdict"] = "INCONCLUSIVE"
        res["reasons"].append("cbmc produced no results: " + ("; ".join(errors) or str(status)))
        return
    res["checks"] = len(results)
    n_err = sum(1 for r in results if r.get("status") not in ("SUCCESS", "FAILURE"))
    if status == "error" or n_err:
        res["verdict"] = "INCONCLUSIVE"
        res["reasons"].append("solver error (%d checks without verdict): %s" % (n_err, "; ".join(errors)[:200] or status))
    for r in results:
        sl = r.get("sourceLocation", {})
        pclass = sl.get("propertyClass", "")
        desc = KANI_ID_RE.sub("", r.get("description", ""))
        m = re.match(r'concat!\s*\(\s*"BSV: "\s*,\s*"(.*)"\s*\)$', desc, re.S)
        if m:
            desc = "BSV: " + m.group(1)
        prop = r.get("property", "")
        st = r.get("status")
        loc = "%s:%s in %s" % (sl.get("file", "?"), sl.get("line", "?"), sl.get("function", "?"))
        cls = classify(pclass, prop, desc)
        if cls == "cover":
            res["covers"].append({"desc": desc, "status": "SATISFIED" if st == "FAILURE" else "UNSATISFIABLE",
                                  "loc": loc})
            continue
        res["by_class"][cls] = res["by_class"].get(cls, 0) + 1
        if st == "FAILURE":
            f = {"class": cls, "name": prop, "desc": desc, "loc": loc, "status": st,
                 "line": sl.get("line"), "file": sl.get("file"), "function": sl.get("function", "")}
            if "trace" in r:
                f["inputs"] = extract_inputs(r["trace"])
            res["failures"].append(f)


def extract_inputs(trace):
    """Concrete values of kani::any() in a counterexample trace, in program order."""
    vals = []
    for s in trace:
        if s.get("stepType") != "assignment":
            continue
        lhs = s.get("lhs", "")
        fn = s.get("sourceLocation", {}).get("function", "")
        if "any_raw" in fn and lhs == "var_0":
            v = s.get("value", {})
            vals.append({"fn": fn[-80:], "value": v.get("data", v.get("name", str(v)[:80])),
                         "bytes": _value_bytes(v)})
    return vals[:400]


def _value_bytes(v):
    """little-endian bytes of a CBMC trace value (None if its layout is not plain)"""
    if not isinstance(v, dict):
        return None
    if "binary" in v and isinstance(v.get("width"), int) and v["width"] % 8 == 0 and len(v["binary"]) == v["width"]:
        b = v["binary"]
        return [int(b[i:i + 8], 2) for i in range(len(b) - 8, -1, -8)]
    if v.get("name") == "array" and "elements" in v:
        out = []
        for e in v["elements"]:
            eb = _value_bytes(e.get("value"))
            if eb is None:
                return None
            out += eb
        return out
    return None


def playback_source(h, violation):
    """Kani concrete-playback test for one counterexample, or None when an input has no plain byte layout."""
    rows = []
    for x in violation.get("inputs") or []:
        if x.get("bytes") is None:
            return None
        rows.append("        vec![%s], // %s = %s" % (", ".join(str(b) for b in x["bytes"]), x["fn"].split("::")[-1], x["value"]))
    return ("\n#[test]\nfn bsv_playback_%s() {\n    let concrete_vals: Vec<Vec<u8>> = vec![\n%s\n    ];\n"
            "    kani::concrete_playback_run(concrete_vals, %s);\n}\n" % (h.name, "\n".join(rows), h.name))


def native_playback(h, violation, timeout=2700):
    """Replay a counterexample against the natively compiled real code (cargo kani playback, dev profile).

    Only for harnesses without stubs (a #[kani::stub] has no effect in a native build).
    Returns (status, detail): reproduced | not-reproduced | unavailable.
    """
    src = playback_source(h, violation)
    if src is None:
        return "unavailable", "a symbolic input has no plain byte layout in the trace"
    pdir = os.path.join(SCRATCH, "playback")
    os.makedirs(pdir, exist_ok=True)
    pfile = os.path.join(pdir, h.module.stem + ".rs")
    with open(h.module.file) as f:
        text = f.read()
    with open(pfile, "w") as f:
        f.write(text + src)
    target = os.path.join(SCRATCH_REPO, h.module.inject)
    plog = os.path.join(pdir, h.name + ".log")
    with Lock("build"):
        with open(target) as f:
            orig = f.read()
        needle = '#[path = "%s"]' % h.module.file
        if needle not in orig:
            return "unavailable", "harness module is not injected in the scratch copy"
        with open(target, "w") as f:
            f.write(orig.replace(needle, '#[path = "%s"]' % pfile))
        try:
            cmd = ["cargo", "kani", "playback", "-Z", "concrete-playback", "--", "bsv_playback_" + h.name]
            with open(plog, "w") as lf:
                try:
                    rc = subprocess.run(cmd, cwd=SCRATCH_REPO, env=ENV, stdout=lf, stderr=subprocess.STDOUT,
                                        timeout=timeout).returncode
                except subprocess.TimeoutExpired:
                    return "unavailable", "native playback build timed out"
        finally:
            with open(target, "w") as f:
                f.write(orig)
    with open(plog) as f:
        out = f.read()
    m = re.search(r"test result: (\w+)\. (\d+) passed; (\d+) failed", out)
    if not m:
        return "unavailable", "native playback did not build or run; see " + plog
    if int(m.group(3)) >= 1:
        msg = ""
        mm = re.search(r"panicked at ([^\n]*)\n([^\n]*)", out)
        if mm:
            msg = (mm.group(1) + " " + mm.group(2))[:200]
        if "concrete_playback.rs" in msg or "det vals" in msg:
            return "unavailable", "the playback ran out of recorded inputs (" + msg[:120] + ")"
        return "reproduced", msg
    if int(m.group(2)) >= 1:
        return "not-reproduced", "the native test passed with the counterexample's inputs"
    return "unavailable", "the playback test was not found"


def tolerated(h, fail):
    """//@ tolerate: <class> | <desc regex> | <function/location regex> | reason"""
    for t in h.tolerate:
        parts = [x.strip() for x in t.split("|")]
        if len(parts) < 4:
            continue
        cls, dre, lre, reason = parts[0], parts[1], parts[2], "|".join(parts[3:])
        if cls != "*" and cls != fail["class"]:
            continue
        if re.search(dre, fail["desc"]) and re.search(lre, fail["loc"]):
            return reason
    return None
