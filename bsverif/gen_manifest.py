#!/usr/bin/env python3
"""Regenerate /verif/MANIFEST.json from the table below (run after adding a property)."""
import json
import os

VERIF = os.path.dirname(os.path.dirname(os.path.abspath(__file__)))
TECH = "bounded symbolic execution of the real Rust source (Kani 0.68 -> CBMC 6.11), SAT (CaDiCaL) over kani::any() inputs"

# property -> (level text, level note, design ref)
CLAIMS = {
    "C14": (
        "Bounded model checking of the real code: the DR7/DR6 bit codec (set_dr, configure_bp, dr_enabled, "
        "detect_and_flush, BreakSize) is decided for every 64-bit register image, slot, length and condition "
        "against the Intel SDM layout; HardwareBreakpoint::{enable, disable, address_already_observed} are decided as "
        "one inductive step from an arbitrary invariant state of two threads' debug registers (slot choice, reuse, "
        "fifth-watchpoint refusal without side effects, no stale enable bits, same image to every thread). "
        "This is the solver-sized core of the property; it holds for all register contents, which no test samples.",
        "Trusted: Kani/CBMC/CaDiCaL; stubs of ptrace::read_user/write_user onto a static u_debugreg model; "
        "std HashMap replaced by an association-list model in tracee.rs. Outside the claim: scoped watchpoints "
        "(companion breakpoints), survival across restart, that the CPU raises #DB, old/new value rendering, more than two threads.",
        "DESIGN.md section 6, C14"),
}

NOT_APPLICABLE = {
    "C03": "Step semantics relate stops to the executed instruction/line stream of a real program; all step logic lives in "
           "Debugger methods needing a live ptrace'd process, parsed DWARF and CFI, and the only oracle for the separable "
           "event loop is the kernel's PTRACE_SINGLESTEP behaviour, which a solver harness would have to invent.",
    "C09": "Quantifies over kernel-scheduled thread interleavings seen only as waitpid event orders; Kani has no concurrency and a "
           "sequential harness needs a model of which event orders ptrace can produce (wrong model = false alarms or vacuous passes).",
    "C11": "The observable is the OS process table and a released process's memory/DR7 after drop/detach/restart: Debugger-level "
           "orchestration of kill/waitpid/PTRACE_DETACH with no arithmetic kernel; the encodable patch-removal part is claimed under C02.",
    "C17": "Inputs are strings through a process-global string interner, two HashMaps and the regex engine; symbolic strings are out "
           "of reach and concrete strings would be enumeration of examples, not solving.",
    "C20": "Decoding walks tokio-internal layouts through DQE evaluation against a live runtime; no kernel to isolate and no layout "
           "to assume other than one specific tokio build.",
}

PENDING = "check under construction in this session; not claimed until its harnesses pass on the unchanged tree"


def main():
    props = [json.loads(l)["id"] for l in open(os.path.join(VERIF, "properties.jsonl")) if l.strip()]
    checks = []
    for pid in props:
        if pid not in CLAIMS:
            continue
        text, note, ref = CLAIMS[pid]
        checks.append({
            "property_id": pid,
            "quick_cmd": f"python3 bsverif/run.py {pid} --tier quick",
            "thorough_cmd": f"python3 bsverif/run.py {pid} --tier thorough",
            "evidence_file": f"evidence/{pid}.json",
            "replay_cmd_template": f"python3 bsverif/run.py {pid} --replay {{path}}",
            "engine": "bsverif",
            "level_claimed": {"category": "model_checking", "text": text, "design_ref": ref},
            "level_note": note,
            "technique": TECH,
        })
    na = []
    for pid in props:
        if pid in CLAIMS:
            continue
        na.append({"property_id": pid, "reason": NOT_APPLICABLE.get(pid, PENDING)})
    m = {
        "version": 1,
        "setup_cmd": "bash bsverif/setup.sh",
        "hooks": {
            "guard": "cfg(kani)",
            "enable": "none in /repo: harness modules are appended (add-only, #[cfg(kani)]) to a scratch copy of the "
                      "working tree under /var/tmp/bsverif and compiled by cargo kani, which sets cfg(kani)",
            "baseline_off_cmd": "cd /repo && cargo nextest run --workspace --no-fail-fast --test-threads 8 --offline "
                                "|| cargo test --workspace --no-fail-fast --offline",
            "source_commits": [],
            "add_only": True,
        },
        "engines": [{
            "name": "bsverif", "path": "bsverif/run.py",
            "serves_properties": [c["property_id"] for c in checks],
            "kind_free_text": "python driver: rsync /repo working tree -> scratch, inject /verif/harness/*.rs as child modules, "
                              "cargo kani --only-codegen, then goto-cc/goto-instrument/cbmc per harness (the kani-driver 0.68 "
                              "pipeline), classify every CBMC check, covers as vacuity witnesses",
        }],
        "checks": checks,
        "not_applicable": na,
        "notes": "exit 0 holds within bounds / 1 VIOLATION / 2 inconclusive (timeout, OOM, unwinding bound, harness does not "
                 "compile against the tree, vacuous). Known findings: known_findings.txt.",
    }
    with open(os.path.join(VERIF, "MANIFEST.json"), "w") as f:
        json.dump(m, f, indent=1)
    print("claimed:", [c["property_id"] for c in checks])


if __name__ == "__main__":
    main()
