#!/usr/bin/env python3
"""Regenerate /verif/MANIFEST.json from the table below (run after adding a property)."""
import json
import os

VERIF = os.path.dirname(os.path.dirname(os.path.abspath(__file__)))
TECH = "bounded symbolic execution of the real Rust source (Kani 0.68 -> CBMC 6.11), SAT (CaDiCaL) over kani::any() inputs"

# property -> (level text, level note, design ref)
CLAIMS = {
    "C01": (
        "Bounded model checking of the debugger's half of the breakpoint contract: Breakpoint::{enable, disable} decided for every "
        "24-byte text image, every alignment of the breakpoint inside its ptrace word and one arbitrary store by the stepped "
        "instruction (sequence enable; disable; store; enable = step_over_breakpoint around one single step): INT3 at exactly the "
        "requested byte, saved byte = the byte replaced, restore exact, re-arm keeps working; lifting a breakpoint restores its own byte only, whatever was stored next to it "
        "while it was armed (a neighbouring breakpoint in the same ptrace word survives); Tracer::apply_new_status on a "
        "breakpoint trap decided for every rip, si_code in {TRAP_BRKPT, SI_KERNEL} and breakpoint address pair: reports "
        "Breakpoint(pid, rip-1), rewinds pc by exactly one and nothing else, marks the thread stopped, requests a group stop.",
        "Trusted: Kani/CBMC/CaDiCaL; stubs of ptrace read/write/getregs/setregs/getsiginfo onto static models; group_stop_interrupt cut; "
        "HashMap replaced by an association list in tracee.rs. Outside the claim: that the CPU traps exactly on patched bytes, "
        "continue_execution's dispatch, DWARF resolution of line/function breakpoints (C04), temporary breakpoints of other threads, "
        "removal through the BreakpointRegistry (out of solver budget, DESIGN probes 17e/17f), multi-thread races (C09).",
        "DESIGN.md section 6, C01"),
    "C02": (
        "Bounded model checking of INT3 patch hygiene at the Breakpoint level: one arbitrary enable/disable from an arbitrary state "
        "satisfying the invariant 'memory = pristine image except 0xCC at every armed breakpoint, saved byte = pristine byte' for two "
        "breakpoints at every pair of offsets in a 24-byte window (same ptrace word in both orders, adjacent and distinct words) "
        "re-establishes the invariant - an inductive step covering histories of any length for two live breakpoints; with both "
        "lifted memory equals the pristine image bit for bit. Fault schedule: a failing ptrace read or write leaves memory and "
        "is_enabled() consistent, and the retry restores/patches exactly.",
        "Trusted: Kani/CBMC; ptrace read/write stubs (word-granular, EIO outside the window, injectable fault). Outside the claim: "
        "debuggee output and exit status (CPU), the temporary breakpoints of step_over_any/step_out_frame (Debugger methods), "
        "BreakpointRegistry::disable_all_breakpoints and call trampolines (C16), a program whose own byte is 0xCC.",
        "DESIGN.md section 6, C02"),
    "C04": (
        "Bounded model checking of the line-table lookup kernels against the DWARF 5 section 6.2 rule written over the same rows: "
        "find_place_by_pc (largest row address <= pc, never an end_sequence row in preference to a real row at the same address, "
        "descriptor = that row), find_exact_place_by_pc with next()/prev(), find_eb, and "
        "prolog_end_place (the function breakpoint address is an instruction of that function, its prologue end when marked), "
        "for every table of 2-4 symbolic rows (sorted, ties allowed) and every pc / range. Two defects found this way were repaired "
        "(fix: commits af84fd5, f9f7395).",
        "Trusted: Kani/CBMC; partial BsUnit with only lines/files written; prolog_start_place and ranges() stubbed in the prologue "
        "harness. Outside the claim: gimli's decoding of .debug_line/.debug_info, find_closest_place (line -> addresses, behind the "
        "interned path index), find_lines_for_range (symbolic-length Vec, out of solver memory), find_function_by_pc's DIE range search, "
        "tables longer than the instances run.",
        "DESIGN.md section 6, C04"),
    "C05": (
        "Bounded model checking of the register-carrying kernels of the unwinder: DwarfRegisterMap::{from(RegisterMap), value, update, "
        "update_from} decided for all register contents against the System V AMD64 psABI DWARF numbering (rax 0 ... r15 15, RA 16, "
        "eflags 49, segment registers 50-55, fs.base 58, gs.base 59; other numbers RegisterNotFound), and RelocatedAddress::offset "
        "(CFA + signed offset) for every CFA and offset. Thin: the unwind loop itself is outside.",
        "Trusted: Kani/CBMC. Outside the claim (most of the statement): FDE lookup and rule evaluation by gimli, the unwind loop and its "
        "guards, set_frame_into_focus, per-thread stacks.",
        "DESIGN.md section 6, C05"),
    "C06": (
        "Bounded model checking of the hashbrown table scan the debugger uses to show HashMap/HashSet contents: "
        "match_empty_or_deleted + BitMask drain decided for all 2^128 control groups; HashmapReflection::iter / BucketIterator::next "
        "decided for every content of tables with 4 buckets and (<= 3 elements) 32 buckets (group boundary): the elements reported "
        "are exactly the FULL buckets, each once - nothing missing, duplicated or invented, tombstones and padding skipped; "
        "scalar decoding (i8..i128, u8..u128, isize/usize by name, char-sized, address, f32/f64 bit patterns, unit, every valid char, bool) "
        "equals from_ne_bytes at the type's width and sign for all data bytes.",
        "Trusted: Kani/CBMC; read_memory_by_pid stubbed onto a real harness allocation holding the table. Outside the claim: struct "
        "and member decoding, VecDeque/BTreeMap walks, enum discriminants, type-graph construction, DWARF location evaluation, rendering; "
        "bucket counts and entry sizes other than the instances run.",
        "DESIGN.md section 6, C06"),
    "C07": (
        "Bounded model checking of literal matching, the part of the data-query operators the solver can reach: "
        "SupportedScalar::equal_with_literal decided for every integer kind (i8..i128, u8..u128, isize, usize) and value against "
        "every Int / Bool / Address literal - a key matches exactly the one literal that denotes it, so `a[i]` can only return the "
        "value stored under key i - and for float keys against float literals (equal keys match, zero included; keys further than "
        "1e-6 apart do not). Found the 128-bit truncation defect repaired by fix: 39dff2a (replayed natively).",
        "Trusted: Kani/CBMC (bit-precise floats). Outside the claim (most of the statement): the chumsky grammar and 'canonical text "
        "parses back'; field / deref / address / canonic; array index and slice (every path drops Values through a pointer, which CBMC "
        "cannot handle here - DESIGN 11.2); string, char and composite literals.",
        "DESIGN.md sections 6 (C07) and 11"),
    "C08": (
        "Bounded model checking of crash- and out-of-bounds-freedom at the listed sites, for all values of the hostile input: "
        "length / capacity guards composed with read_memory_by_pid for every 64-bit length field; StructureMember::value for every "
        "member offset and size against 8 fetched bytes; scalar decoding with fewer bytes than the type needs; PointerValue::slice "
        "arithmetic for every pointer, element size and user-typed bounds; the DAP completions text/column arithmetic for every "
        "i64 column; a writeMemory with every 64-bit memoryReference and every i64 offset (reference + offset composed with the byte "
        "writer exactly as the handler composes them: Ok or Err, no overflow, success only when the bytes are in memory); frameId "
        "decoding for every i64. Every panic, overflow and pointer check CBMC generates in the reachable repository code is an obligation. "
        "Four defects found this way were repaired (fix: 2579f05, 8cef99b, f29c815, b0ea585).",
        "Trusted: Kani/CBMC; stubs of ptrace::read, read_memory_by_pid, ComplexType::type_size_in_bytes; the DWARF expression "
        "evaluator is cut (it trips an internal error of the Kani compiler when reachable). Outside the claim: command-line and DQE "
        "parsers (chumsky), serde_json envelope decoding, ArrayValue::slice (drops Values, DESIGN 11.2; its out-of-range panic is a "
        "reading-only item), VecDeque / B-tree walks on garbage, allocation failure for huge DAP readMemory counts, wall-clock "
        "bounds, 'the session remains usable afterwards'.",
        "DESIGN.md sections 6 (C08) and 11"),
    "C16": (
        "Bounded model checking of argument marshalling for `call`: CallArgs::prepare_registers puts argument k into the k-th System V "
        "integer argument register (rdi, rsi, rdx, rcx, r8, r9) and leaves every other of the 27 registers unchanged, for all register "
        "contents and argument values; CallArgs::new refuses count mismatches and more than six arguments and never reaches the "
        "register mapping's unreachable!(); liter_to_arg_bin_repr puts the literal, truncated to the parameter's width, into the low "
        "bytes of the register for every i64 / bool / address literal and each supported DWARF base type, and refuses mismatching kinds; "
        "the Formatter bytes injected for vard/argd (rustc >= 1.87 layout), read back through std's own accessors, carry exactly `{:?}`'s options; "
        "Debugger::call_fn_raw end to end (CallContext, CallHelper::{mmap, jump, call_fn, munmap}) against a model of the stopped thread "
        "in which every single step and the call itself replace the whole register file by arbitrary values and each stage may fail "
        "(mmap -1, jump missed, munmap failed, one failing ptrace call at any position): on every way out all 27 registers and the "
        "text bytes at the interrupted pc equal their values before the call, the function is started at most once (exactly once on "
        "Ok) from the scratch page through `call *%rax; int3` with the arguments in place.",
        "Trusted: Kani/CBMC; HashMap -> association list in type.rs for the one-type ComplexType; for call_fn_raw: ptrace getregs / "
        "setregs / step / cont / waitpid, Debugger::write_memory, read_memory_by_pid, utils::region_exist, libc::sysconf stubbed onto the "
        "thread model, a never-initialised &Debugger with only expl_context written. Outside the claim: that the CPU runs f exactly "
        "once per PTRACE_CONT, the red zone below rsp, a failure of the final restore itself (documented expect), two or more faults, "
        "with_disabled_brkpts (patch level: C02), the call cache.",
        "DESIGN.md sections 6 (C16) and 11"),
    "C10": (
        "Bounded model checking of the signal injection queue of Tracer::resume and the signal classification of apply_new_status, "
        "for every signal 1..31: conservation (a queued signal is passed to exactly one PTRACE_CONT of exactly its thread; threads "
        "with a signal still queued are not resumed; nothing is injected twice) for the queue patterns (), (7), (7,8), (8,8) quick and "
        "(8), (8,7), (7,7) thorough over two threads; quiet signals pass straight through exactly once without stopping, SIGINT "
        "stops and is never queued, everything else stops, is reported with its thread and stays queued once. "
        "One genuine defect is recorded as a known finding (two signals queued for one thread: the first is lost).",
        "Trusted: Kani/CBMC; ptrace::cont/waitpid/getsiginfo stubs; Tracer::group_stop_interrupt cut to its bookkeeping effect; HashMap "
        "-> association list in tracee.rs. Outside the claim: the kernel's half of exactly-once, group-stop behaviour, signals inside "
        "single_step, more than two threads or two queued entries.",
        "DESIGN.md section 6, C10"),
    "C12": (
        "Bounded model checking of the DAP session's sequencing logic with serialisation cut at its boundary: three sends of symbolic "
        "kind carry seq 1,2,3 in wire order and responses echo request_seq/command/success; and, by sequentialisation at the transport "
        "lock (Mutex::lock stubbed to let an adversary perform up to two complete foreign sends on the shared counter), sequence "
        "numbers strictly increase in wire order for every such schedule for send_event_raw and send_response_raw; a cancelled request "
        "is answered exactly once (error response echoing request_seq and command) and the cancellation is consumed. This check found "
        "the seq-before-lock defect, repaired by fix: commit 67c6522.",
        "Trusted: Kani/CBMC; protocol::send_event and serde_json::to_value::<DapResponse> replaced by recorders; the adversary models "
        "the forwarders as taking their number under the lock (true after the fix; their closures cannot be called from a harness). "
        "Outside the claim: request handling (needs a Debugger), the lifecycle latch of drain_events (out of solver budget), event "
        "causality, envelope decode errors, JSON shape.",
        "DESIGN.md section 6, C12"),
    "C13": (
        "Bounded model checking of breakpoint option semantics: HitCondition::{parse, matches} against an independent reader of the "
        "documented forms (N, =N, ==N, >N, >=N, <N, <=N) for every text of length 2 (quick) and 3-4 (thorough) over [0-9<>= ] and every "
        "hit count; the record charged for a stop is the first one whose locations contain the stop address (by kind), its hit count "
        "grows by exactly one (saturating) and no other record changes; literal conditions 0/false/empty do not hold.",
        "Trusted: Kani/CBMC. Outside the claim (most of the statement): replace semantics and `verified` (need Debugger::set_breakpoint_*), "
        "records keyed by source path, conditions that are data queries, logpoints.",
        "DESIGN.md section 6, C13"),
    "C14": (
        "Bounded model checking of the real code: the DR7/DR6 bit codec (set_dr, configure_bp, dr_enabled, detect_and_flush, BreakSize) "
        "is decided for every 64-bit register image, slot, length and condition against the Intel SDM layout; "
        "HardwareBreakpoint::{enable, disable, address_already_observed} are decided as one inductive step from an arbitrary "
        "invariant state of two threads' debug registers (slot choice, reuse, fifth-watchpoint refusal without side effects, no "
        "stale enable bits, same image to every thread); a thread created later receives exactly the registry's last image.",
        "Trusted: Kani/CBMC/CaDiCaL; stubs of ptrace::read_user/write_user onto a static u_debugreg model; std HashMap replaced by an "
        "association-list model in tracee.rs. Outside the claim: scoped watchpoints (companion breakpoints), survival across restart "
        "(WatchpointRegistry::refresh: out of solver memory), that the CPU raises #DB, old/new value rendering, more than two threads.",
        "DESIGN.md section 6, C14"),
    "C15": (
        "Bounded model checking of the word-granular memory kernels and the register file: read_memory_by_pid returns exactly "
        "MEM[a..a+n] for every content, alignment and n in {0,1,9} (8,16,17 thorough); the DAP byte writer write_bytes changes exactly "
        "[a, a+n) and nothing else for every content, alignment and n in {1,2,9} (8,17 thorough), across word boundaries; "
        "RegisterMap <-> user_regs_struct round-trips field by field for all 27 registers and update/value agree; setVariable text of "
        "3 bytes for u8/i8/i16 stores bytes that read back as the typed number or is refused (found the silent-truncation defect, fix: 902e8ed); the access address of readMemory / writeMemory / disassemble "
        "is memoryReference + offset exactly for every base and offset (never a wrapped or negative sum), and a two-character reference "
        "text denotes the number it spells (hex after 0x, decimal otherwise) or is refused.",
        "Trusted: Kani/CBMC; ptrace::read and Debugger::{read_memory, write_memory} stubbed onto byte-array models. Outside the claim: "
        "page boundaries / unmapped memory, disassembly masking, setVariable serialisation of composite values, float parsing.",
        "DESIGN.md section 6, C15"),
    "C18": (
        "Bounded model checking of the address arithmetic every load-address-dependent behaviour goes through: Global <-> Relocated "
        "conversion is an exact bijection for every address and mapping offset (PIE or not), and DwarfRegistry::find_range returns the "
        "object whose half-open region contains the address for every layout of 2-3 (5 thorough) sorted, non-overlapping, possibly "
        "adjacent regions. Thin: which offsets and regions exist comes from /proc/<pid>/maps and is outside.",
        "Trusted: Kani/CBMC; partial DwarfRegistry with only `ranges` written. Outside the claim (almost all of the statement): "
        "/proc/<pid>/maps parsing, choice of load bias, rendezvous and deferred breakpoints, dlopen; an address equal to a region's "
        "end is accepted by the code when nothing is mapped there (stated).",
        "DESIGN.md section 6, C18"),
    "C19": (
        "Bounded model checking of the scope-membership kernel used by valid_at / ranges: GlobalAddress::{in_range, in_ranges} is the "
        "half-open test begin <= pc < end (a sibling block starting where this one ends is not in scope) for every pc and every three "
        "ranges. Thin: the DIE walk and shadowing order are outside.",
        "Trusted: Kani/CBMC. Outside the claim (most of the statement): local_variables' BFS and first-match rule, location lists, frame "
        "selection, register pieces.",
        "DESIGN.md section 6, C19"),
}

NOT_APPLICABLE = {
    "C03": "Step semantics relate stops to the executed instruction/line stream of a real program; all step logic lives in "
           "Debugger methods needing a live ptrace'd process, parsed DWARF and CFI, and the only oracle for the separable "
           "event loop is the kernel's PTRACE_SINGLESTEP behaviour, which a solver harness would have to invent.",
    "C09": "Quantifies over kernel-scheduled thread interleavings seen only as waitpid event orders; Kani has no concurrency and a "
           "sequential harness needs a model of which event orders ptrace can produce (wrong model = false alarms or vacuous passes).",
    "C11": "The observable is the OS process table and a released process's memory/DR7 after drop/detach/restart: Debugger-level "
           "orchestration of kill/waitpid/PTRACE_DETACH with no arithmetic kernel; the encodable patch-removal part is claimed under C02.",
    "C17": "Inputs are strings through a process-global string interner, two HashMaps and the regex engine; symbolic strings are out "
           "of reach and concrete strings would be enumeration of examples, not solving.",
    "C20": "Decoding walks tokio-internal layouts through DQE evaluation against a live runtime; no kernel to isolate and no layout "
           "to assume other than one specific tokio build.",
}

PENDING = "check under construction in this session; not claimed until its harnesses pass on the unchanged tree"


def main():
    props = [json.loads(l)["id"] for l in open(os.path.join(VERIF, "properties.jsonl")) if l.strip()]
    checks = []
    for pid in props:
        if pid not in CLAIMS:
            continue
        text, note, ref = CLAIMS[pid]
        checks.append({
            "property_id": pid,
            "quick_cmd": f"python3 bsverif/run.py {pid} --tier quick",
            "thorough_cmd": f"python3 bsverif/run.py {pid} --tier thorough",
            "evidence_file": f"evidence/{pid}.json",
            "replay_cmd_template": f"python3 bsverif/run.py {pid} --replay {{path}}",
            "engine": "bsverif",
            "level_claimed": {"category": "model_checking", "text": text, "design_ref": ref},
            "level_note": note,
            "technique": TECH,
        })
    na = []
    for pid in props:
        if pid in CLAIMS:
            continue
        na.append({"property_id": pid, "reason": NOT_APPLICABLE.get(pid, PENDING)})
    m = {
        "version": 1,
        "setup_cmd": "bash bsverif/setup.sh",
        "hooks": {
            "guard": "cfg(kani)",
            "enable": "none in /repo: harness modules are appended (add-only, #[cfg(kani)]) to a scratch copy of the "
                      "working tree under /var/tmp/bsverif and compiled by cargo kani, which sets cfg(kani)",
            "baseline_off_cmd": "cd /repo && cargo nextest run --workspace --no-fail-fast --test-threads 8 --offline "
                                "|| cargo test --workspace --no-fail-fast --offline",
            "source_commits": [],
            "add_only": True,
        },
        "engines": [{
            "name": "bsverif", "path": "bsverif/run.py",
            "serves_properties": [c["property_id"] for c in checks],
            "kind_free_text": "python driver: rsync /repo working tree -> scratch, inject /verif/harness/*.rs as child modules, "
                              "cargo kani --only-codegen, then goto-cc/goto-instrument/cbmc per harness (the kani-driver 0.68 "
                              "pipeline), classify every CBMC check, covers as vacuity witnesses",
        }],
        "checks": checks,
        "not_applicable": na,
        "notes": "exit 0 holds within bounds / 1 VIOLATION / 2 inconclusive (timeout, OOM, unwinding bound, harness does not "
                 "compile against the tree, vacuous). Known findings: known_findings.txt.",
    }
    with open(os.path.join(VERIF, "MANIFEST.json"), "w") as f:
        json.dump(m, f, indent=1)
    print("claimed:", [c["property_id"] for c in checks])


if __name__ == "__main__":
    main()
