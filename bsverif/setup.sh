#!/bin/bash
# MANIFEST.setup_cmd: warm the Kani build (dependencies + the quick-tier harness set of every claimed
# property) from files on disk only.  Checks rebuild whatever is stale themselves; this only moves the
# one-off cost of compiling 330 dependency crates out of the first check.
cd "$(dirname "$0")/.."
export CARGO_NET_OFFLINE=true
props=$(python3 -c "import json;print(' '.join(c['property_id'] for c in json.load(open('MANIFEST.json'))['checks']))")
rc=0
for p in $props; do
  python3 bsverif/run.py "$p" --build-only || rc=$?
done
# a failing warm-up is not fatal: every check builds what it needs
exit 0
