#!/usr/bin/env python3
"""Decide one property: python3 bsverif/run.py <Cxx> [--tier quick|thorough] [--only <harness>] [--jobs N]

exit 0  every obligation unsat within its bounds, every cover satisfied
exit 1  at least one violation not listed in known_findings.txt  (prints VIOLATION property=<id> replay=<path>)
exit 2  inconclusive (timeout, out of memory, unwinding bound too small, harness does not compile, vacuous)
"""
import argparse
import json
import os
import random
import re
import sys
import time
from concurrent.futures import ThreadPoolExecutor

sys.path.insert(0, os.path.dirname(os.path.abspath(__file__)))
import core  # noqa: E402


def load_known():
    """known_findings.txt lines:
       finding: property=C10 harness=<regex> check=<regex over description> where=<regex over location> :: what fails
       fixed: property=C10 <commit> <what failed>        (suppresses nothing)
    """
    out = []
    try:
        with open(core.KNOWN_FILE) as f:
            for line in f:
                line = line.strip()
                if not line.startswith("finding:"):
                    continue
                head, _, what = line[len("finding:"):].partition(" :: ")
                d = {"what": what.strip()}
                for m in re.finditer(r'(\w+)=("([^"]*)"|\S+)', head):
                    d[m.group(1)] = m.group(3) if m.group(3) is not None else m.group(2)
                out.append(d)
    except FileNotFoundError:
        pass
    return out


def known_match(known, prop, h, fail):
    for k in known:
        if k.get("property") != prop:
            continue
        if not re.fullmatch(k.get("harness", ".*"), h.name):
            continue
        if not re.search(k.get("check", ""), fail["desc"]):
            continue
        if not re.search(k.get("where", ""), fail["loc"]):
            continue
        return k
    return None


def judge(h, res, known):
    """Fill res['verdict'] and friends for one finished harness run."""
    res.setdefault("violations", [])
    res.setdefault("known", [])
    res.setdefault("tolerated", [])
    res.setdefault("bound_failures", [])
    if res["verdict"] == "INCONCLUSIVE":
        return
    for f in res["failures"]:
        if f["class"] == "B":
            res["bound_failures"].append(f)
            continue
        why = core.tolerated(h, f)
        if why is not None:
            res["tolerated"].append({"class": f["class"], "desc": f["desc"], "loc": f["loc"], "reason": why})
            continue
        k = known_match(known, h.property, h, f)
        if k is not None:
            res["known"].append({"desc": f["desc"], "loc": f["loc"], "what": k["what"]})
            continue
        res["violations"].append(f)
    unsat = [c for c in res["covers"] if c["status"] != "SATISFIED"]
    if res["violations"]:
        res["verdict"] = "VIOLATION"
    elif res["bound_failures"]:
        res["verdict"] = "INCONCLUSIVE"
        res["reasons"].append("bound/encoding check failed: " + "; ".join(
            sorted({f["desc"][:80] + " @ " + f["loc"][-80:] for f in res["bound_failures"]})[:4]))
    elif not res["covers"]:
        res["verdict"] = "INCONCLUSIVE"
        res["reasons"].append("harness has no reachability cover")
    elif unsat:
        res["verdict"] = "INCONCLUSIVE"
        res["reasons"].append("vacuity: cover not satisfied: " + "; ".join(c["desc"] for c in unsat))
    else:
        res["verdict"] = "HOLDS"


def write_replay(h, res):
    d = os.path.join(core.REPLAY_DIR, h.property)
    os.makedirs(d, exist_ok=True)
    p = os.path.join(d, h.name + ".json")
    with open(p, "w") as f:
        json.dump({
            "property": h.property, "harness": h.path, "harness_file": h.module.file,
            "obligation": h.obligation,
            "native_playback": res.get("playback"),
            "playback_test": core.playback_source(h, res["violations"][0]) if res["violations"] else None,
            "violations": [{k: v for k, v in x.items()} for x in res["violations"]],
            "how_to_replay": f"python3 {core.VERIF}/bsverif/run.py {h.property} --only {h.name}   "
                             "(re-encodes /repo's current tree; the solver returns the same class of "
                             "counterexample; 'inputs' are the kani::any() values of this one in program order)",
        }, f, indent=1)
    return p


def main():
    ap = argparse.ArgumentParser()
    ap.add_argument("property")
    ap.add_argument("--tier", default=os.environ.get("VERIF_TIER", "quick"))
    ap.add_argument("--only", action="append")
    ap.add_argument("--jobs", type=int, default=int(os.environ.get("BSVERIF_JOBS", "8")))
    ap.add_argument("--no-evidence", action="store_true")
    ap.add_argument("--replay")
    ap.add_argument("--build-only", action="store_true")
    ap.add_argument("--loops", action="store_true", help="list the loops of the selected harnesses and stop")
    ap.add_argument("--no-playback", action="store_true",
                    default=os.environ.get("BSVERIF_PLAYBACK", "1") == "0",
                    help="do not replay counterexamples natively (development only)")
    a = ap.parse_args()
    if a.replay:
        # a replay file names its harness: re-run exactly that harness against the current tree
        with open(a.replay) as f:
            rp = json.load(f)
        a.only = [rp["harness"].split("::")[-1]]
        a.tier = "thorough"
        a.no_evidence = True
    tier = a.tier if a.tier in ("quick", "thorough") else "quick"
    try:
        seed = int(os.environ.get("VERIF_SEED", "0"))
    except ValueError:
        seed = 0
    t0 = time.time()
    mods = core.load_modules()
    sel = []
    for m in mods:
        for h in m.harnesses:
            if h.property != a.property:
                continue
            if a.only:
                if h.name in a.only:
                    sel.append(h)
            elif tier == "thorough" or h.tier == "quick":
                sel.append(h)
    if not sel:
        print(f"no harness for {a.property}", file=sys.stderr)
        return 2
    # VERIF_SEED only permutes scheduling order; verdicts are deterministic
    sel.sort(key=lambda h: (h.order, h.name))
    if seed:
        random.Random(seed).shuffle(sel)
    used_mods = []
    for h in sel:
        if h.module not in used_mods:
            used_mods.append(h.module)
    for m in list(used_mods):
        for stem in m.requires:
            for m2 in mods:
                if m2.stem == stem and m2 not in used_mods:
                    used_mods.append(m2)
    core.log(f"{a.property} tier={tier}: {len(sel)} harness instance(s); snapshot + build ...")
    th, ok, problems, build_s, meta = core.prepare(used_mods, sel)
    dropped = []   # harnesses whose module does not compile against this tree: INCONCLUSIVE, the others still run
    if not ok:
        text = " ".join(problems)
        bad = [m for m in used_mods if m.file in text]
        if bad and len(bad) < len(used_mods):
            bad_stems = {m.stem for m in bad}
            keep_mods = [m for m in used_mods if m.stem not in bad_stems
                         and not any(r in bad_stems for r in m.requires)]
            dropped = [h for h in sel if h.module not in keep_mods]
            sel2 = [h for h in sel if h.module in keep_mods]
            if sel2:
                core.log("harness module(s) %s do not compile against this tree; running the other modules"
                         % ", ".join(sorted(bad_stems)))
                first_problems = problems
                th, ok, problems, build_s2, meta = core.prepare(keep_mods, sel2)
                build_s += build_s2
                if ok:
                    sel = sel2
                    problems = first_problems
                else:
                    dropped = []
    known = load_known()
    results = []
    if a.build_only:
        core.log(f"build-only {a.property}: ok={ok} {build_s:.0f}s {'; '.join(problems)[:300]}")
        return 0 if ok else 2
    if not ok:
        core.log("INCONCLUSIVE: " + "; ".join(problems))
    else:
        core.log(f"build {build_s:.0f}s, tree {th}")

        def work(h):
            r = core.run_harness(h, meta[h.path], loops_only=a.loops)
            judge(h, r, known)
            core.log(f"  {h.name}: {r['verdict']} checks={r['checks']} prep={r['prep_s']}s cbmc={r['cbmc_s']}s "
                     f"solver={r['solver_s']}s {'; '.join(r['reasons'])[:300]}")
            return r
        with ThreadPoolExecutor(max_workers=max(1, a.jobs)) as ex:
            results = list(ex.map(work, sel))
    wall = time.time() - t0

    n_viol = 0
    inconclusive = not ok or bool(dropped)
    for h in dropped:
        print(f"INCONCLUSIVE property={a.property} harness={h.name}: its harness module does not compile against this tree "
              f"(a name it refers to changed): {'; '.join(problems)[:300]}")
    for h, r in zip(sel, results):
        if r["verdict"] == "VIOLATION":
            # replay before reporting (DESIGN section 5)
            # stubs that only cut cost (the real function behaves the same natively) do not prevent a native replay
            benign = ("std::backtrace::Backtrace::capture", "std::hash::RandomState::new", "alloc::fmt::format")
            real_stubs = [x for x in (r.get("stubs_applied") or []) if not x.split("->")[0].strip().startswith(benign)]
            if real_stubs:
                r["playback"] = {"mode": "model", "status": "not-applicable",
                                 "detail": "the harness runs the real code behind declared stubs, which do not exist in a "
                                           "native build; the counterexample is CBMC's trace over that encoding"}
            elif a.no_playback:
                r["playback"] = {"mode": "model", "status": "skipped", "detail": "--no-playback"}
            else:
                core.log(f"  {h.name}: replaying the counterexample natively (cargo kani playback) ...")
                v0 = r["violations"][0]
                # a second CBMC run for this one property without formula slicing: complete list of inputs
                r2 = core.run_harness(h, meta[h.path], tag="-replay", only_property=v0["name"])
                full = [f for f in r2.get("failures", []) if f["name"] == v0["name"] and f.get("inputs")]
                if full:
                    v0["inputs"] = full[0]["inputs"]
                st, detail = core.native_playback(h, v0)
                r["playback"] = {"mode": "native", "status": st, "detail": detail}
                core.log(f"  {h.name}: native playback: {st} {detail}")
                if st == "not-reproduced" and all(v["class"] != "M" for v in r["violations"]):
                    r["verdict"] = "INCONCLUSIVE"
                    r["reasons"].append("ENCODING-MISMATCH: the counterexample does not reproduce against the natively "
                                        "compiled code; no claim")
        if r["verdict"] == "VIOLATION":
            p = write_replay(h, r)
            n_viol += 1
            for v in r["violations"][:3]:
                print(f"  violated [{v['class']}] {v['desc'][:160]} @ {v['loc'][-120:]}")
            pb = r.get("playback") or {}
            print(f"  replay: {pb.get('mode')} {pb.get('status')} {pb.get('detail', '')[:200]}")
            print(f"VIOLATION property={a.property} replay={p}")
        elif r["verdict"] == "INCONCLUSIVE":
            inconclusive = True
            print(f"INCONCLUSIVE property={a.property} harness={h.name}: {'; '.join(r['reasons'])[:400]}")
    seen = set()
    for h, r in zip(sel, results):
        for k in r["known"]:
            key = (h.name, k["what"])
            if key not in seen:
                seen.add(key)
                print(f"KNOWN-FINDING: property={a.property} harness={h.name} {k['what']}")
    if not a.no_evidence:
        write_evidence(a.property, tier, seed, sel, results, wall, ok, problems, th, build_s, n_viol)
    if n_viol:
        return 1
    if inconclusive:
        return 2
    print(f"OK property={a.property} tier={tier}: {len(sel)} harness instance(s) hold within their bounds "
          f"({sum(r['checks'] for r in results)} solver checks, {wall:.0f}s)")
    return 0


def write_evidence(prop, tier, seed, sel, results, wall, ok, problems, th, build_s, n_viol):
    os.makedirs(core.EVIDENCE_DIR, exist_ok=True)
    samples, funcs, stubs, assumes, outside, bounds = [], [], [], [], [], []
    by_class = {}
    nontrivial = 0
    solver_s = 0.0
    side = {"tolerated": [], "known_findings": []}
    for h, r in zip(sel, results):
        nt = r["verdict"] in ("HOLDS", "VIOLATION") and r["covers"] and all(
            c["status"] == "SATISFIED" for c in r["covers"])
        if nt:
            nontrivial += 1
        solver_s += r.get("solver_s") or 0.0
        for k, v in r["by_class"].items():
            by_class[k] = by_class.get(k, 0) + v
        samples.append({
            "harness": h.path, "obligation": h.obligation, "verdict": r["verdict"],
            "functions_encoded": h.encodes, "symbolic": h.symbolic, "bounds": h.bounds,
            "unwind_default": r.get("unwind"), "loop_bounds": r.get("loop_bounds"),
            "oracle": h.oracle, "checks": r["checks"], "checks_by_class": r["by_class"],
            "covers": r["covers"], "vccs_after_simplification": r.get("vccs"),
            "program_steps": r.get("program_steps"), "prep_s": r.get("prep_s"), "cbmc_s": r.get("cbmc_s"),
            "decision_procedure_s": r.get("solver_s"), "stubs_applied": r.get("stubs_applied"),
            "reasons": r["reasons"],
        })
        for x in r["tolerated"]:
            side["tolerated"].append({"harness": h.name, **x})
        for x in r["known"]:
            side["known_findings"].append({"harness": h.name, **x})
        if h.encodes:
            funcs.append(h.encodes)
        if h.stubs:
            stubs.append(f"{h.name}: {h.stubs}")
        if h.assumes:
            assumes.append(f"{h.name}: {h.assumes}")
        if h.outside:
            outside.append(f"{h.name}: {h.outside}")
        if h.bounds:
            bounds.append(f"{h.name}: {h.bounds}")
    total_checks = sum(r["checks"] for r in results)
    all_harnesses = [h for m in core.load_modules() for h in m.harnesses if h.property == prop]
    not_run = sorted(h.name for h in all_harnesses if h.name not in {x.name for x in sel})
    ev = {
        "property_id": prop, "tier": tier, "seed": seed, "level": "model_checking",
        "coverage": {
            "evaluations": max(total_checks, 0),
            "distinct_nontrivial": nontrivial,
            "rule": "evaluations = CBMC checks (verification conditions incl. the harness' BSV: assertions and every "
                    "panic / bounds / pointer / overflow check reachable in the encoded repository code) decided by "
                    "CaDiCaL over all values of the symbolic inputs; one case = one harness instance (harness x concrete "
                    "sizes); a case is non-trivial iff a verdict was reached and every kani::cover! in it (always "
                    "including the end-of-harness cover and the covers of the interesting region) is SATISFIED",
            "samples": samples,
            "harness_instances": len(sel),
            "instances_not_run_in_this_tier": not_run,
            "functions_encoded": funcs,
            "bounds": bounds,
            "outside_claim": outside,
            "solver": "Kani 0.68.0 -> CBMC 6.11.0 -> CaDiCaL; encoding regenerated from /repo's working tree",
            "tree_hash": th, "build_s": round(build_s, 1),
            "decision_procedure_s": round(solver_s, 2),
            "checks_by_class": by_class,
            "tolerated_dev_profile_or_ub_by_the_letter": side["tolerated"],
            "known_findings": side["known_findings"],
            "build_problems": problems,
            "exhaustive": False,
        },
        "assumptions": stubs + assumes + [
            "Kani models the dev profile (overflow checks and debug_assert! on)",
            "std::collections::HashMap/HashSet are replaced by an association-list model (harness/common/vecmap.rs) "
            "in the files named by a harness module's `//! t7:` header",
        ],
        "wall_s": round(wall, 1),
        "violations": n_viol,
    }
    with open(os.path.join(core.EVIDENCE_DIR, prop + ".json"), "w") as f:
        json.dump(ev, f, indent=1)


if __name__ == "__main__":
    sys.exit(main())
